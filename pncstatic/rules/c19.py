"""C19 - ICARTT (ffi1001) write/read round trip: header line algebra and table agreement.

R-LINECOUNT  declared header-line count = number of lines emitted before the data block (line algebra);
             declared variable / comment counts = trip counts of the loops that write them.
R-LINEORDER  the k-th header line written carries what the reader assigns at li == k.
R-MISSRC     the missing code declared per variable and the value that fills masked cells come from the same source.
R-PRECISION  data written with %.Ne, N >= 6, from a float64 matrix.
R-EXACTMISS  the reader masks by exact equality with the declared missing code.
"""
import ast
import re

from ..engine import AnalysisError, dotted, iter_stmts, norm, walk_expr, const_str, kw
from ..report import Finding
from ..sizealg import to_poly, Poly
from .. import api

LEVEL_TEXT = (
    "Static line algebra over ncf2ffi1001 (ast + polynomial normal forms): counts the print statements before "
    "the data block symbolically (loops contribute trip-count x prints, trip counts matched to the comprehensions that "
    "define the declared counts) and compares with the declared header-line, variable and comment counts; compares "
    "the writer's line order with the reader's line-number constants; checks that declared missing codes and the fill "
    "of masked cells share one source, the %.6e format, and exact-equality masking in the reader. Seven-digit value "
    "equality and idempotence of a second cycle are not decided.")

RP = 'icarttfiles/ffi1001.py'
W = 'ncf2ffi1001'
READER_CONSTS = {'PI_LINE': ['PI_NAME'], 'ORG_LINE': ['ORGANIZATION_NAME'], 'PLAT_LINE': ['SOURCE_DESCRIPTION'],
                 'MISSION_LINE': ['MISSION_NAME'], 'VOL_LINE': ['VOLUME_INFO'], 'DATE_LINE': ['SDATE', 'WDATE'],
                 'TIME_INT_LINE': ['TIME_INTERVAL'], 'UNIT_LINE': ['INDEPENDENT_VARIABLE'], 'SCALE_LINE': ['<scales>'],
                 'MISSING_LINE': ['<missing>']}


def is_print_to(st, fname='outfile'):
    return isinstance(st, ast.Expr) and isinstance(st.value, ast.Call) and dotted(st.value.func) == 'print' \
        and kw(st.value, 'file') is not None and norm(kw(st.value, 'file')) == fname


def fmt_sig(f):
    """significant digits a printf-style conversion keeps; 17 = all, None = not understood"""
    mm = re.match(r'^%(?:\.(\d+))?([sreEgGfdi])$', f or '')
    if not mm:
        return None
    prec, ch = mm.group(1), mm.group(2)
    if ch in 'sr':
        return 17
    if ch in 'gG':
        return (int(prec) if prec is not None else 6) or 1
    if ch in 'eE':
        return (int(prec) if prec is not None else 6) + 1
    if ch in 'di':
        return 0
    return None


def cell_formats(loop):
    """text conversions of numbers inside the data loop: [(node, format text, 'row' | 'cell')]"""
    out = []
    for c in walk_expr(loop):
        if isinstance(c, ast.Call) and isinstance(c.func, ast.Attribute) and c.func.attr == 'tofile':
            f = kw(c, 'format')
            out.append((c, const_str(f) if f is not None else None, 'row'))
        elif isinstance(c, ast.BinOp) and isinstance(c.op, ast.Mod) and isinstance(c.left, ast.Constant) and isinstance(c.left.value, str) \
                and re.match(r'^%[.\d]*[sreEgGfdi]$', c.left.value):
            out.append((c, c.left.value, 'cell'))
        elif isinstance(c, ast.Call) and dotted(c.func) in ('str', 'repr') and len(c.args) == 1:
            out.append((c, '%s', 'cell'))
        elif isinstance(c, ast.JoinedStr):
            for fv_ in c.values:
                if isinstance(fv_, ast.FormattedValue):
                    spec = const_str(fv_.format_spec.values[0]) if fv_.format_spec is not None and fv_.format_spec.values else ''
                    out.append((fv_, '%' + spec if spec else '%s', 'cell'))
    return out


def oneline(ctx, fn, data_loop, where):
    """R-ONELINE: the value of a comment attribute (an attribute read under a computed name) reaches the header only through a
    conversion that removes line breaks - every counted header line is one print, so a break inside a value shifts every count."""
    ctx.rule('R-ONELINE', 'a comment attribute (read under a computed name) is flattened to one line before it is printed: the declared counts take one line per print')
    fparam = fn.args.args[0].arg if fn.args.args else 'f'
    par = {}
    for n in ast.walk(fn):
        for ch in ast.iter_child_nodes(n):
            par[id(ch)] = n

    def stmt_of(n):
        while id(n) in par and not isinstance(n, ast.stmt):
            n = par[id(n)]
        return n

    def flattened(n):
        """True: an enclosing expression removes the line breaks; None: wrapped by something unknown; False: goes out as it is"""
        cur = n
        unknown = False
        seen_replace = set()
        while id(cur) in par and not isinstance(par[id(cur)], ast.stmt):
            p_ = par[id(cur)]
            if isinstance(p_, ast.Call):
                fname = dotted(p_.func) or ''
                attr = p_.func.attr if isinstance(p_.func, ast.Attribute) else None
                if attr in ('splitlines', 'split') and cur is p_.func:
                    # ... .splitlines() / .split(): flattened once joined
                    q = p_
                    while id(q) in par and not isinstance(par[id(q)], ast.stmt):
                        qq = par[id(q)]
                        if isinstance(qq, ast.Call) and isinstance(qq.func, ast.Attribute) and qq.func.attr == 'join' and q in qq.args:
                            return True
                        q = qq
                    unknown = True
                elif attr == 'replace' and cur is p_.func and p_.args and const_str(p_.args[0]) in ('\n', '\r', '\r\n'):
                    seen_replace.add(const_str(p_.args[0]))
                    if {'\n', '\r'} <= seen_replace:
                        return True
                elif fname in ('re.sub', 'sub') and len(p_.args) >= 3 and cur is p_.args[2]:
                    pat = const_str(p_.args[0]) or ''
                    if ('\\s' in pat) or (('\\n' in pat or '\n' in pat) and ('\\r' in pat or '\r' in pat)):
                        return True
                    unknown = True
                elif fname in ('str', 'repr', 'format') or attr in ('format', 'strip', 'rstrip', 'lstrip', 'join'):
                    pass
                elif fname == 'print':
                    pass
                else:
                    unknown = True
            cur = p_
        return None if unknown else False
    dyn = [n for n in ast.walk(fn) if isinstance(n, ast.Call) and dotted(n.func) == 'getattr' and len(n.args) >= 2 and isinstance(n.args[0], ast.Name)
           and n.args[0].id == fparam and const_str(n.args[1]) is None and n.lineno < data_loop.lineno]
    nd = 0
    for g in dyn:
        st = stmt_of(g)
        fl = flattened(g)
        if fl is True:
            nd += 1
            ctx.ok('R-ONELINE', norm(g)[:40], where, 'line breaks removed where the value is read: %s' % norm(st)[:70])
            continue
        if fl is False and isinstance(st, ast.Assign) and len(st.targets) == 1 and isinstance(st.targets[0], ast.Name):
            name = st.targets[0].id
            block = par.get(id(st))
            uses = [u for u in ast.walk(block) if isinstance(u, ast.Name) and u.id == name and isinstance(u.ctx, ast.Load) and u.lineno >= st.lineno] if block is not None else []
            verdicts = [flattened(u) for u in uses]
            if uses and all(v is True for v in verdicts):
                nd += 1
                ctx.ok('R-ONELINE', norm(g)[:40], where, 'every use of %s removes the line breaks' % name)
                continue
            if uses and any(v is None for v in verdicts) and not any(v is False for v in verdicts):
                fl = None
        if fl is None:
            nd += 1
            ctx.undec('R-ONELINE', norm(g)[:40], where, 'the value passes through a call this rule does not know: %s' % norm(st)[:70])
            continue
        nd += 1
        ctx.violation(Finding('R-ONELINE', RP, W, st, 'the value of a comment attribute (%s) is printed as it is: a value with a line break (a netCDF history, a long array) '
                              'occupies several lines while the declared header and comment counts take one line per attribute, so the output does not re-open' % norm(g)))
    ctx.floor('comment-attribute reads judged by R-ONELINE', nd, 1)


def misscell(ctx, fn, data_loop, cells, where):
    """R-MISSCELL: a cell that holds the missing code is written with the digits of the declared code.
    Returns the conversions that write such cells ([] when they are not singled out)."""
    ctx.rule('R-MISSCELL', 'a data cell that holds the missing code is written with a conversion that keeps every digit of the code (the reader compares exactly)')
    lossy = [(c, f, k) for c, f, k in cells if fmt_sig(f) is None or fmt_sig(f) < 17]
    if not lossy:
        ctx.ok('R-MISSCELL', 'data cells', where, 'every cell is written with all digits')
        return []

    def mentions_code(e, tainted):
        """the expression reads the missing code (not merely an array filled with it)"""
        skip = set()
        for n in ast.walk(e):
            if isinstance(n, ast.Call) and (dotted(n.func) or '').split('.')[-1] == 'filled':
                skip.update(id(x) for x in ast.walk(n))
        for n in ast.walk(e):
            if id(n) in skip:
                continue
            if isinstance(n, ast.Call) and dotted(n.func) == 'getattr' and len(n.args) >= 2 and const_str(n.args[1]) == 'missing_value':
                return True
            if isinstance(n, ast.Name) and n.id in tainted:
                return True
        return False
    tainted = set()
    for _ in range(6):
        before = len(tainted)
        for n in ast.walk(fn):
            pairs = []
            if isinstance(n, ast.Assign) and len(n.targets) == 1:
                pairs.append((n.targets[0], n.value))
            elif isinstance(n, (ast.For, ast.comprehension)):
                it, tg = n.iter, n.target
                if isinstance(it, ast.Call) and dotted(it.func) == 'zip' and isinstance(tg, ast.Tuple) and len(tg.elts) == len(it.args):
                    pairs.extend(zip(tg.elts, it.args))
                elif isinstance(it, ast.Call) and dotted(it.func) == 'enumerate' and isinstance(tg, ast.Tuple) and len(tg.elts) == 2 and it.args:
                    pairs.append((tg.elts[1], it.args[0]))
                else:
                    pairs.append((tg, it))
            for tg, val in pairs:
                if mentions_code(val, tainted):
                    for x in ast.walk(tg):
                        if isinstance(x, ast.Name):
                            tainted.add(x.id)
        if len(tainted) == before:
            break
    # parents inside the data loop
    par = {}
    for n in ast.walk(data_loop):
        for ch in ast.iter_child_nodes(n):
            par[id(ch)] = n

    def selecting_test(node):
        """(test, in_equal_branch, other branch nodes) of the nearest choice on the code that encloses the conversion"""
        cur = node
        while id(cur) in par:
            p_ = par[id(cur)]
            if isinstance(p_, ast.IfExp) and cur is not p_.test:
                t = p_.test
                if isinstance(t, ast.Compare) and len(t.ops) == 1 and isinstance(t.ops[0], (ast.Eq, ast.NotEq)) and mentions_code(t, tainted):
                    eq = isinstance(t.ops[0], ast.Eq)
                    in_body = cur is p_.body
                    return t, (in_body == eq), [p_.orelse if in_body else p_.body]
            if isinstance(p_, ast.If) and cur is not p_.test:
                t = p_.test
                if isinstance(t, ast.Compare) and len(t.ops) == 1 and isinstance(t.ops[0], (ast.Eq, ast.NotEq)) and mentions_code(t, tainted):
                    eq = isinstance(t.ops[0], ast.Eq)
                    in_body = any(cur is b for b in p_.body)
                    return t, (in_body == eq), (p_.orelse if in_body else p_.body)
            cur = p_
        return None, None, []
    code_cells = []
    for c, f, kind in lossy:
        if kind == 'row':
            ctx.violation(Finding('R-MISSCELL', RP, W, api.stmt_of(c), 'whole rows are written with %s: a cell filled with the missing code keeps %s significant digits while the header declares the code '
                                  'with all of them, so a longer code (-99999999) does not read back as missing' % (f, fmt_sig(f))))
            continue
        t, in_eq, other = selecting_test(c)
        if t is None:
            ctx.violation(Finding('R-MISSCELL', RP, W, api.stmt_of(c), 'every cell, also one filled with the missing code, is written with %s (%s significant digits) while the header declares the code '
                                  'with all digits: a longer code (-99999999) does not read back as missing' % (f, fmt_sig(f))))
            continue
        if in_eq:
            ctx.violation(Finding('R-MISSCELL', RP, W, api.stmt_of(c), 'the cells equal to the missing code (%s) are the ones written with %s' % (norm(t), f)))
            continue
        exact = [(c2, f2) for n_ in other for c2, f2, k2 in cell_formats(n_) if fmt_sig(f2) == 17 and mentions_code(c2, tainted)]
        if exact:
            code_cells.extend((c2, f2, 'cell') for c2, f2 in exact)
            ctx.ok('R-MISSCELL', norm(c)[:40], where, 'cells with %s are written as %s, the others with %s' % (norm(t), norm(exact[0][0]), f))
        else:
            ctx.violation(Finding('R-MISSCELL', RP, W, api.stmt_of(c), 'cells with %s are not written with an all-digit conversion of the code' % norm(t)))
    # every read of the code in the writer has the same default
    defaults = sorted(set(norm(n.args[2]) for n in ast.walk(fn) if isinstance(n, ast.Call) and dotted(n.func) == 'getattr' and len(n.args) == 3
                          and const_str(n.args[1]) == 'missing_value'))
    if len(defaults) > 1:
        site = [n for n in ast.walk(fn) if isinstance(n, ast.Call) and dotted(n.func) == 'getattr' and len(n.args) == 3 and const_str(n.args[1]) == 'missing_value'
                and norm(n.args[2]) == defaults[-1]][0]
        ctx.violation(Finding('R-MISSCELL', RP, W, api.stmt_of(site), 'the writer reads the missing code with different defaults (%s): for a variable without the attribute the declared code, the fill and the '
                              'cells singled out no longer agree' % ', '.join(defaults)))
    return code_cells


def run(ctx):
    for r, d in (('R-LINECOUNT', 'declared header/variable/comment counts equal the emitted line counts'),
                 ('R-LINEORDER', 'k-th written header line = what the reader assigns at li == k'),
                 ('R-MISSRC', 'declared missing code and fill of masked cells share one source'),
                 ('R-PRECISION', "data format '%.Ne' with N >= 6 from a float64 matrix"),
                 ('R-EXACTMISS', 'reader masks with exact equality to the missing code')):
        ctx.rule(r, d)
    mod = ctx.src.mod(RP)
    fn = mod.func(W)
    where = 'src/PseudoNetCDF/%s %s' % (RP, W)
    # ---- collections defined by comprehensions: name -> (source collection text, predicate text)
    colls = {}
    for st in fn.body:
        if isinstance(st, ast.Assign) and isinstance(st.targets[0], ast.Name) and isinstance(st.value, ast.ListComp):
            lc = st.value
            g = lc.generators[0]
            if isinstance(lc.elt, ast.Name) and isinstance(g.target, ast.Name) and lc.elt.id == g.target.id:
                pred = norm(g.ifs[0]).replace(g.target.id, '$') if len(g.ifs) == 1 else ('' if not g.ifs else None)
                colls[st.targets[0].id] = (norm(g.iter), pred)

    def atomize(n):
        if isinstance(n, ast.Call) and dotted(n.func) == 'len' and n.args and isinstance(n.args[0], ast.Name):
            return 'len(%s)' % n.args[0].id
        return None

    # ---- walk the top-level statements up to the data loop
    total = Poly()
    prints = []      # (stmt, kind, count Poly)
    loops = []
    data_loop = None
    # the data loop is the last top-level loop that writes (row.tofile or a print to the output file)
    _writing = [st for st in fn.body if isinstance(st, ast.For) and (
        any(isinstance(c, ast.Call) and isinstance(c.func, ast.Attribute) and c.func.attr == 'tofile' for c in walk_expr(st))
        or any(is_print_to(s) for s in iter_stmts(st.body)))]
    _last_writing = _writing[-1] if _writing else None
    for st in fn.body:
        if st is _last_writing and cell_formats(st):
            data_loop = st
            break
        if is_print_to(st):
            total = total + 1
            prints.append(st)
        elif isinstance(st, ast.For):
            body_prints = [s for s in iter_stmts(st.body) if is_print_to(s)]
            if not body_prints:
                continue
            # trip count
            it = norm(st.iter)
            skip = [s for s in st.body if isinstance(s, ast.If) and any(isinstance(x, ast.Continue) for x in s.body)]
            cond_prints = [s for s in body_prints if getattr(s, '_parent', None) is not st]
            trip = None
            why = ''
            if isinstance(st.iter, ast.Name) and st.iter.id in colls and not skip and not cond_prints:
                trip = Poly.atom('len(%s)' % st.iter.id)
            elif not cond_prints and len(skip) == 1 and isinstance(st.target, ast.Tuple) and it.endswith('.items()'):
                # for key, var in X.items(): if key == E: continue   <=>  [k for k in X.keys() if k != E]
                kname = st.target.elts[0].id
                t = skip[0].test
                if isinstance(t, ast.Compare) and isinstance(t.ops[0], ast.Eq) and isinstance(t.left, ast.Name) and t.left.id == kname:
                    pred = '$ != ' + norm(t.comparators[0])
                    base = it[:-len('.items()')]
                    for cname, (csrc, cpred) in colls.items():
                        if csrc in (base + '.keys()', base) and cpred == pred:
                            trip = Poly.atom('len(%s)' % cname)
                if trip is None:
                    why = 'skip predicate does not match a declared collection'
            elif not skip and cond_prints and isinstance(st.target, ast.Tuple) and it.endswith('.items()') and len(st.body) == 1 and isinstance(st.body[0], ast.If) \
                    and not st.body[0].orelse and all(getattr(s, '_parent', None) is st.body[0] for s in body_prints):
                # for key, var in X.items(): if key != E: <prints>   - the same selection written positively
                kname = st.target.elts[0].id
                t = st.body[0].test
                if isinstance(t, ast.Compare) and isinstance(t.ops[0], ast.NotEq) and isinstance(t.left, ast.Name) and t.left.id == kname:
                    pred = '$ != ' + norm(t.comparators[0])
                    base = it[:-len('.items()')]
                    for cname, (csrc, cpred) in colls.items():
                        if csrc in (base + '.keys()', base) and cpred == pred:
                            trip = Poly.atom('len(%s)' % cname)
                if trip is None:
                    why = 'selection predicate does not match a declared collection'
            else:
                why = 'a header line inside this loop is written conditionally (%s)' % (
                    norm(skip[0].test) if skip else norm(getattr(cond_prints[0], '_parent').test) if cond_prints and isinstance(getattr(cond_prints[0], '_parent'), ast.If) else 'nested')
            loops.append((st, trip, len(body_prints), why))
            if trip is not None:
                total = total + trip * len(body_prints)
    if data_loop is None or not prints:
        raise AnalysisError('construct not understood: header/data structure of ncf2ffi1001')
    # declared header count: first print, '%d, %d' % (EXPR, 1001)
    first = prints[0].value.args[0]
    declared = None
    if isinstance(first, ast.BinOp) and isinstance(first.op, ast.Mod) and isinstance(first.left, ast.Constant) and isinstance(first.left.value, str):
        # '<count>, 1001' in any split between the template text and its arguments: '%d, %d' % (n, 1001), '%d, 1001' % (n,), '%d, 1001' % n
        pieces = re.split(r'%[dis]', first.left.value)
        fargs = list(first.right.elts) if isinstance(first.right, ast.Tuple) else [first.right]
        if len(fargs) == len(pieces) - 1 and fargs:
            declared = to_poly(fargs[0], atomize=atomize)
            tail = pieces[1]
            for a_, t_ in zip(fargs[1:], pieces[2:]):
                tail += (str(a_.value) if isinstance(a_, ast.Constant) else '?') + t_
            if tail.strip(' ,') != '1001' or pieces[0].strip():
                ctx.violation(Finding('R-LINEORDER', RP, W, prints[0], 'first header line does not end with the format id 1001'))
    if declared is None:
        raise AnalysisError('construct not understood: declared header count of ncf2ffi1001')
    bad_loops = [l for l in loops if l[1] is None]
    if bad_loops:
        for st, trip, nb, why in bad_loops:
            ctx.violation(Finding('R-LINECOUNT', RP, W, st if not isinstance(st, ast.For) else 'for %s in %s: ...' % (norm(st.target), norm(st.iter)),
                                  'the number of header lines this loop writes cannot be shown equal to the declared count: %s; '
                                  'the declared header length then disagrees with the text and the data header line is misread' % why,
                                  lineno=st.lineno))
    elif declared == total:
        ctx.ok('R-LINECOUNT', 'header lines', where, 'declared %s == emitted %s (%d unconditional prints, %d loops)' % (declared, total, len(prints), len(loops)))
    else:
        ctx.violation(Finding('R-LINECOUNT', RP, W, prints[0],
                              'declared header-line count %s but %s lines are written before the data block' % (declared, total)))
    # declared variable count vs trip count of the name/unit loop; comment count vs comment loop
    for i, p in enumerate(prints):
        a0 = p.value.args[0]
        txt = norm(a0)
        lenarg = None
        a1 = a0
        if isinstance(a1, ast.BinOp) and isinstance(a1.op, ast.Mod) and isinstance(a1.left, ast.Constant) and a1.left.value in ('%d', '%i', '%s'):
            a1 = a1.right.elts[0] if isinstance(a1.right, ast.Tuple) and len(a1.right.elts) == 1 else a1.right
        if isinstance(a1, ast.Call) and dotted(a1.func) in ('str', 'int') and len(a1.args) == 1:
            a1 = a1.args[0]
        if isinstance(a1, ast.Call) and dotted(a1.func) == 'len' and len(a1.args) == 1:
            lenarg = a1.args[0]
        if lenarg is not None:
            cname = norm(lenarg)
            # the next counted loop after this print must have trip len(cname)
            nxt = [l for l in loops if l[0].lineno > p.lineno]
            if cname == 'depvarkeys' or (nxt and nxt[0][1] is not None):
                # which loop does this count describe: the first loop after the print whose body prints one line per item
                target = None
                for l in nxt:
                    target = l
                    break
                if target is None:
                    continue
                want = Poly.atom('len(%s)' % cname)
                if target[1] is None:
                    continue
                if target[1] == want:
                    ctx.ok('R-LINECOUNT', 'count %s' % cname, where, "declared %s = trip count of 'for %s in %s'" % (txt, norm(target[0].target), norm(target[0].iter)))
                else:
                    ctx.violation(Finding('R-LINECOUNT', RP, W, p, 'declared count %s but the following block writes %s lines' % (txt, target[1])))
    # lists on the scale and missing lines have one entry per dependent variable
    for p in prints:
        for lc in [n for n in walk_expr(p) if isinstance(n, ast.ListComp)]:
            it = norm(lc.generators[0].iter)
            if it in colls:
                ctx.ok('R-LINECOUNT', 'entries %s' % norm(lc.elt)[:30], where, 'one entry per element of %s' % it)
    # ---- R-LINEORDER
    consts = {}
    for name, val in mod.assigns.items():
        if name.endswith('_LINE') and isinstance(val, ast.Constant) and isinstance(val.value, int):
            consts[name] = val.value
    rd = mod.func('ffi1001.__init__')
    reader_assign = {}
    for st in iter_stmts(rd.body):
        if isinstance(st, ast.If):
            t = st.test
            if isinstance(t, ast.Compare) and isinstance(t.left, ast.Name) and t.left.id == 'li' and isinstance(t.ops[0], ast.Eq) \
                    and isinstance(t.comparators[0], ast.Name) and t.comparators[0].id in consts:
                names = set()
                for s2 in st.body:
                    for n in ast.walk(s2):
                        if isinstance(n, ast.Attribute) and isinstance(n.value, ast.Name) and n.value.id == 'self' and isinstance(n.ctx, ast.Store):
                            names.add(n.attr)
                        if isinstance(n, ast.Name) and isinstance(n.ctx, ast.Store):
                            names.add('<%s>' % n.id)
                reader_assign[t.comparators[0].id] = names
    n_order = 0
    for cname, attrs in sorted(READER_CONSTS.items(), key=lambda kv: consts.get(kv[0], 0)):
        if cname not in consts:
            raise AnalysisError('anchor vanished: reader constant %s' % cname)
        k = consts[cname]
        if k - 1 >= len(prints) or prints[k - 1].lineno > (loops[0][0].lineno if loops else 10**9):
            ctx.violation(Finding('R-LINEORDER', RP, W, 'line %d' % k, 'the writer has no unconditional header line %d (%s)' % (k, cname), lineno=fn.lineno))
            continue
        p = prints[k - 1]
        written = set()
        for n in walk_expr(p):
            if isinstance(n, ast.Call) and dotted(n.func) == 'getattr' and len(n.args) >= 2 and const_str(n.args[1]):
                written.add(const_str(n.args[1]))
            if isinstance(n, ast.Attribute) and isinstance(n.value, ast.Name) and n.value.id == 'f':
                written.add(n.attr)
        ra = reader_assign.get(cname, set())
        n_order += 1
        if attrs[0].startswith('<'):
            # list lines: reader stores a local list; writer line is a delim.join over depvarkeys
            isjoin = any(isinstance(c, ast.Call) and isinstance(c.func, ast.Attribute) and c.func.attr == 'join' for c in walk_expr(p))
            wm = 'missing_value' in written
            good = isjoin and attrs[0] in ra and ((attrs[0] == '<missing>') == wm)
        else:
            good = set(attrs) <= written and set(attrs) & ra
        if good:
            ctx.ok('R-LINEORDER', '%s=%d' % (cname, k), where, 'line %d writes %s; reader assigns %s' % (k, sorted(written) or 'list', sorted(ra)))
        else:
            ctx.violation(Finding('R-LINEORDER', RP, W, p, 'header line %d carries %s but the reader interprets line %d as %s (%s)'
                                  % (k, sorted(written) or norm(p)[:40], k, attrs, cname)))
    ctx.floor('line-order pairs', n_order, 10)
    # ---- R-LINESTATE: the reader's line-number state machine is consistent (size algebra over its own definitions)
    # ---- R-UNITFIELD: a written 'NAME, UNITS' line reads back as exactly that name and those units (finite case analysis)
    from .. import consteval
    ctx.rule('R-UNITFIELD', "reader: a variable line 'NAME, UNITS' (as written) yields name NAME and units UNITS, also for empty units")
    rdf = mod.func('ffi1001.__init__')
    wrd = 'src/PseudoNetCDF/%s ffi1001.__init__' % RP
    branch = None
    for st in iter_stmts(rdf.body):
        if isinstance(st, ast.If) and 'MISSING_LINE' in norm(st.test) and 'LAST_VAR_DESC_LINE' in norm(st.test):
            branch = st
    wl = [st for st in iter_stmts(fn.body) if is_print_to(st) and st.value.args and isinstance(st.value.args[0], ast.Call) and norm(st.value.args[0]).startswith('delim.join([key, getattr(var, \'units\'')]
    if branch is None or not wl:
        ctx.undec('R-UNITFIELD', 'variable lines', wrd, 'variable-description branch of the reader or the writer line delim.join([key, units]) not found in the recognised form')
    else:
        bad = None
        unk = None
        for nm, un in (('O3', 'ppbv'), ('FLAG', ''), ('NO_2', ''), ('RATIO', '1'), ('T (K)', 'K'), ('A_B', 'ug/m3')):
            env = consteval.run_block(branch.body, {'line': '%s, %s\n' % (nm, un), 'units': []}, want_env=True)
            if env is consteval.UNK or env.get('units') is consteval.UNK or env.get('name') is consteval.UNK:
                unk = (nm, un)
                continue
            if env.get('units') != [un] or env.get('name') != nm:
                bad = (nm, un, env.get('name'), env.get('units'))
                break
        if bad:
            ctx.violation(Finding('R-UNITFIELD', RP, 'ffi1001.__init__', branch.body[0] if not isinstance(branch.body[0], ast.Assign) else
                                  ([s2 for s2 in branch.body if isinstance(s2, ast.If)] or branch.body)[0],
                                  "the written line %r reads back as name %r, units %r: names/units do not survive the round trip" % ('%s, %s' % bad[:2], bad[2], bad[3])))
        elif unk:
            ctx.undec('R-UNITFIELD', 'variable lines', wrd, 'reader branch outside the evaluated fragment for %r' % (unk,))
        else:
            ctx.ok('R-UNITFIELD', 'variable lines', wrd, '6 sample lines (empty units, underscores, parentheses) read back exactly')
    # ---- R-DATASHAPE: the parsed data block is given its 2-D shape explicitly before it is indexed per variable
    ctx.rule('R-DATASHAPE', 'reader: the text-parsed data block is reshaped to (records, variables) before per-variable indexing (a single row/column parses to 1-D)')
    state = {}
    nshape = 0
    for st in iter_stmts(rdf.body):
        if isinstance(st, ast.Assign) and len(st.targets) == 1 and isinstance(st.targets[0], ast.Name):
            nm = st.targets[0].id
            v = st.value
            if isinstance(v, ast.Call) and (dotted(v.func) or '').split('.')[-1] in ('genfromtxt', 'loadtxt', 'fromstring', 'fromfile'):
                nd = kw(v, 'ndmin')
                state[nm] = 'SHAPED' if (nd is not None and isinstance(nd, ast.Constant) and nd.value == 2 and not (kw(v, 'unpack') is not None)) else 'RAW'
                continue
            if isinstance(v, ast.Call) and isinstance(v.func, ast.Attribute) and isinstance(v.func.value, ast.Name) and v.func.value.id in state:
                src_ = v.func.value.id
                if v.func.attr == 'reshape' and (len(v.args) == 2 or (len(v.args) == 1 and isinstance(v.args[0], ast.Tuple) and len(v.args[0].elts) == 2)):
                    state[nm] = 'SHAPED'
                elif v.func.attr in ('swapaxes', 'transpose', 'T', 'copy', 'astype'):
                    if state[src_] == 'RAW' and v.func.attr in ('swapaxes', 'transpose'):
                        ctx.violation(Finding('R-DATASHAPE', RP, 'ffi1001.__init__', st, 'axes of the parsed block are exchanged before it has an explicit 2-D shape'))
                    state[nm] = state[src_]
                else:
                    state.pop(nm, None)
                continue
            # per-variable read
            for n in ast.walk(v):
                if isinstance(n, ast.Subscript) and isinstance(n.value, ast.Name) and n.value.id in state:
                    nshape += 1
                    if state[n.value.id] == 'RAW':
                        ctx.violation(Finding('R-DATASHAPE', RP, 'ffi1001.__init__', st, 'the parsed data block %s is indexed per variable without an explicit reshape to '
                                              '(records, variables): a file with one record (or one column) parses to fewer dimensions and every variable gets the wrong shape' % n.value.id))
                    else:
                        ctx.ok('R-DATASHAPE', norm(st)[:40], wrd, 'indexed after reshape(records, variables)')
            if nm in state:
                state.pop(nm, None)
    if not nshape:
        ctx.undec('R-DATASHAPE', 'data block', wrd, 'per-variable indexing of the parsed block not found')
    ctx.rule('R-LINESTATE', 'reader line constants: variable lines, special-comment block and user-comment block are contiguous')
    lenv = dict((k_, Poly.const(v_)) for k_, v_ in consts.items() if isinstance(v_, int))     # the integer line constants may be used by name
    defs = {}
    for st in iter_stmts(rd.body):
        if isinstance(st, ast.Assign) and isinstance(st.targets[0], ast.Name) and st.targets[0].id.endswith('_LINE'):
            try:
                defs[st.targets[0].id] = to_poly(st.value, dict(lenv), atomize=atomize)
                lenv[st.targets[0].id] = defs[st.targets[0].id]
            except Exception:
                pass
    nv, ns = Poly.atom('len(missing)'), Poly.atom('n_special_comments')
    wantd = {'LAST_VAR_DESC_LINE': Poly.const(consts['MISSING_LINE']) + nv,
             'SPECIAL_COMMENT_COUNT_LINE': Poly.const(consts['MISSING_LINE']) + nv + 1,
             'LAST_SPECIAL_COMMENT_LINE': Poly.const(consts['MISSING_LINE']) + nv + 1 + ns,
             'USER_COMMENT_COUNT_LINE': Poly.const(consts['MISSING_LINE']) + nv + 2 + ns}
    wr = 'src/PseudoNetCDF/%s ffi1001.__init__' % RP
    for k, wv in sorted(wantd.items()):
        if k not in defs:
            ctx.undec('R-LINESTATE', k, wr, 'definition not found')
        elif defs[k] == wv:
            ctx.ok('R-LINESTATE', k, wr, '%s = %s' % (k, defs[k]))
        else:
            ctx.violation(Finding('R-LINESTATE', RP, 'ffi1001.__init__', [s2 for s2 in iter_stmts(rd.body) if isinstance(s2, ast.Assign) and norm(s2.targets[0]) == k][0],
                                  'reader line constant %s = %s, but the blocks are contiguous only if it is %s' % (k, defs[k], wv)))
    # ---- R-MISSRC
    miss_print = prints[consts['MISSING_LINE'] - 1]
    decl = [c for c in walk_expr(miss_print) if isinstance(c, ast.Call) and dotted(c.func) == 'getattr' and len(c.args) == 3]
    fills = []
    for st in fn.body:
        if isinstance(st, ast.For) and st.lineno > loops[-1][0].lineno and st is not data_loop:
            for c in walk_expr(st):
                if isinstance(c, ast.Call) and dotted(c.func) in ('filled', 'np.ma.filled', 'ma.filled'):
                    fills.append(c)
                if isinstance(c, ast.Call) and isinstance(c.func, ast.Attribute) and c.func.attr == 'filled':
                    fills.append(c)
    if not decl or not fills:
        raise AnalysisError('construct not understood: missing-code declaration / fill in ncf2ffi1001')
    d = decl[0]
    dkey = (const_str(d.args[1]), norm(d.args[2]))
    for c in fills:
        fv = c.args[1] if (dotted(c.func) or '').endswith('filled') and not isinstance(c.func, ast.Attribute) and len(c.args) > 1 else \
            (c.args[0] if isinstance(c.func, ast.Attribute) and c.func.attr == 'filled' and c.args else (c.args[1] if len(c.args) > 1 else None))
        fkey = None
        if isinstance(fv, ast.Call) and dotted(fv.func) == 'getattr' and len(fv.args) == 3:
            fkey = (const_str(fv.args[1]), norm(fv.args[2]))
        if fkey == dkey:
            ctx.ok('R-MISSRC', norm(c)[:60], where, 'declared and filled with getattr(var, %r, %s)' % dkey)
        else:
            ctx.violation(Finding('R-MISSRC', RP, W, api.stmt_of(c),
                                  'the header declares getattr(var, %r, %s) as missing code but masked cells are filled with %s: '
                                  'whenever the two differ the cells read back as valid data' % (dkey[0], dkey[1], norm(fv) if fv is not None else "the array's own fill_value")))
    # ---- R-COLORDER: the column-name line and the data columns come from one ordered key list
    ctx.rule('R-COLORDER', 'the names on the column line are in the order of the data columns (independent variable first, then the dependent variables as written)')
    name_print = None
    for st in fn.body:
        if is_print_to(st) and st.lineno < data_loop.lineno:
            name_print = st
    colloop = [st for st in fn.body if isinstance(st, ast.For) and st is not data_loop and any(isinstance(c, ast.Call) and dotted(c.func) == 'vals.append' for c in ast.walk(st))]
    if name_print is None or not colloop:
        ctx.undec('R-COLORDER', 'column line', where, 'column-name print or the loop that collects the data columns not found')
    else:
        arg = name_print.value.args[0]
        joined = arg.args[0] if isinstance(arg, ast.Call) and isinstance(arg.func, ast.Attribute) and arg.func.attr == 'join' and arg.args else None
        lp = colloop[-1]
        ok_ = False
        why = 'names: %s ; columns collected in `for %s in %s`' % (norm(joined)[:40] if joined is not None else '?', norm(lp.target), norm(lp.iter)[:30])
        if isinstance(joined, ast.Name):
            # names list appended in the same loop as the columns, and seeded with the same first element
            same_loop = any(isinstance(c, ast.Call) and dotted(c.func) == joined.id + '.append' for c in ast.walk(lp))
            seed_n = [s2 for s2 in fn.body if isinstance(s2, ast.Assign) and norm(s2.targets[0]) == joined.id and s2.lineno < lp.lineno]
            seed_v = [s2 for s2 in fn.body if isinstance(s2, ast.Assign) and norm(s2.targets[0]) == 'vals' and s2.lineno < lp.lineno]
            if same_loop and seed_n and seed_v and 'INDEPENDENT_VARIABLE' in norm(seed_n[-1].value) and 'INDEPENDENT_VARIABLE' in norm(seed_v[-1].value):
                ok_ = True
            # or: the names list is literally the iterated sequence with the independent variable in front
            if not same_loop and seed_n and isinstance(lp.iter, ast.Name) and norm(seed_n[-1].value) in ('[f.INDEPENDENT_VARIABLE] + %s' % lp.iter.id, '[f.INDEPENDENT_VARIABLE] + list(%s)' % lp.iter.id):
                ok_ = True
        elif joined is not None and isinstance(lp.iter, ast.Name) and norm(joined) in ('[f.INDEPENDENT_VARIABLE] + %s' % lp.iter.id, '[f.INDEPENDENT_VARIABLE] + list(%s)' % lp.iter.id):
            ok_ = True
        if ok_:
            ctx.ok('R-COLORDER', 'column line', where, why)
        else:
            ctx.violation(Finding('R-COLORDER', RP, W, name_print, 'the column names are %s but the data columns are the independent variable followed by the variables of `for %s in %s`: when the '
                                  'independent variable is not the first variable of the file every name labels another column' % (norm(joined)[:50] if joined is not None else norm(arg)[:50],
                                                                                                                                  norm(lp.target), norm(lp.iter)[:30])))
    # ---- R-INDEPSRC: the name on the independent-variable line is the name the first data column is taken with
    ctx.rule('R-INDEPSRC', 'the independent-variable header line names the variable whose data are written as the first column (one source for both)')
    k9 = consts.get('UNIT_LINE')
    seed_v = [s2 for s2 in fn.body if isinstance(s2, ast.Assign) and norm(s2.targets[0]) == 'vals']
    colsrc = None
    if seed_v:
        for n_ in walk_expr(seed_v[0].value):
            if isinstance(n_, ast.Subscript) and norm(n_.value) == 'f.variables':
                colsrc = norm(n_.slice)
                break
    if k9 is None or k9 - 1 >= len(prints) or colsrc is None:
        ctx.undec('R-INDEPSRC', 'independent variable', where, 'header line or first data column not found')
    else:
        p9 = prints[k9 - 1]
        a9 = p9.value.args[0] if p9.value.args else None
        while isinstance(a9, ast.Call) and dotted(a9.func) == 'str' and len(a9.args) == 1:
            a9 = a9.args[0]
        if isinstance(a9, ast.BinOp) and isinstance(a9.op, ast.Mod) and isinstance(a9.left, ast.Constant) and a9.left.value == '%s':
            a9 = a9.right.elts[0] if isinstance(a9.right, ast.Tuple) and len(a9.right.elts) == 1 else a9.right
        fields9 = [a9]
        if isinstance(a9, ast.Call) and isinstance(a9.func, ast.Attribute) and a9.func.attr == 'join' and len(a9.args) == 1 and isinstance(a9.args[0], (ast.List, ast.Tuple)) and a9.args[0].elts:
            fields9 = list(a9.args[0].elts)
            a9 = fields9[0]
        locs = dict((s2.targets[0].id, s2.value) for s2 in fn.body if isinstance(s2, ast.Assign) and len(s2.targets) == 1 and isinstance(s2.targets[0], ast.Name))
        t9 = norm(locs.get(a9.id, a9)) if isinstance(a9, ast.Name) else (norm(a9) if a9 is not None else None)
        tcol = norm(locs[colsrc]) if colsrc in locs else colsrc
        if t9 == tcol:
            ctx.ok('R-INDEPSRC', 'independent variable', where, 'line %d and the first data column both use %s' % (k9, tcol))
        else:
            ctx.violation(Finding('R-INDEPSRC', RP, W, p9, 'header line %d names %s but the first data column is f.variables[%s]: when the two differ the file declares one variable as '
                                  'independent and writes another one first; read back, the names label other columns' % (k9, t9, tcol)))
        # ---- R-INDEPUNITS: the line also carries the units of that variable (the reader takes them from the second field)
        ctx.rule('R-INDEPUNITS', 'the independent-variable header line carries the units of that variable as its second field (the reader falls back to the name)')

        def _units_of(e):
            """text of V when e reads the attribute units of V"""
            if isinstance(e, ast.Call) and dotted(e.func) == 'getattr' and len(e.args) >= 2 and const_str(e.args[1]) == 'units':
                return norm(locs.get(e.args[0].id, e.args[0])) if isinstance(e.args[0], ast.Name) else norm(e.args[0])
            if isinstance(e, ast.Attribute) and e.attr == 'units':
                return norm(locs.get(e.value.id, e.value)) if isinstance(e.value, ast.Name) else norm(e.value)
            return None
        u9 = None
        for fld in fields9[1:2]:
            fld = locs.get(fld.id, fld) if isinstance(fld, ast.Name) else fld
            u9 = _units_of(fld)
        want = ('f.variables[%s]' % t9, 'f.variables[%s]' % (norm(a9) if a9 is not None else ''))
        if u9 is not None and u9 in want:
            ctx.ok('R-INDEPUNITS', 'independent variable', where, 'line %d: name, units of %s' % (k9, u9))
        elif len(fields9) < 2:
            ctx.violation(Finding('R-INDEPUNITS', RP, W, p9, 'header line %d carries the name of the independent variable only: the reader then uses the name as units, so the units of that variable '
                                  "(Start_UTC.units = 's') do not survive a write/read cycle" % k9))
        else:
            ctx.violation(Finding('R-INDEPUNITS', RP, W, p9, 'the second field of header line %d is %s, not the units of the independent variable %s' % (k9, norm(fields9[1])[:60], want[0])))
    # ---- R-ENCODING: a writer that fixes the text encoding uses the one the reader (and the sniffer) decode with by default
    ctx.rule('R-ENCODING', 'an encoding fixed by the writer is the default encoding of the reader and of isMine')

    def _enc(x):
        return (x or '').lower().replace('-', '').replace('_', '')
    rdef = None
    rparams = [a.arg for a in rd.args.args]
    if 'encoding' in rparams:
        i_ = rparams.index('encoding') - (len(rparams) - len(rd.args.defaults))
        rdef = const_str(rd.args.defaults[i_]) if i_ >= 0 else None
    wopen = [c for c in walk_expr(fn) if isinstance(c, ast.Call) and dotted(c.func) in ('open', 'io.open', 'codecs.open')]
    if not wopen:
        ctx.undec('R-ENCODING', 'writer open', where, 'the writer opens no file itself')
    for c in wopen:
        e_ = kw(c, 'encoding')
        if e_ is None:
            ctx.ok('R-ENCODING', norm(c)[:40], where, 'no encoding fixed (interpreter default); reader default %r' % rdef)
        elif const_str(e_) is not None and rdef is not None and _enc(const_str(e_)) != _enc(rdef):
            ctx.violation(Finding('R-ENCODING', RP, W, api.stmt_of(c), 'the writer encodes the text as %r, the reader and isMine decode it as %r by default: a unit or comment with a non-ASCII character '
                                  '(micro sign, degree sign) is written as bytes the reader rejects, so the output neither re-opens nor is detected' % (const_str(e_), rdef)))
        elif const_str(e_) is None:
            ctx.undec('R-ENCODING', norm(c)[:40], where, 'encoding is not a literal')
        else:
            ctx.ok('R-ENCODING', norm(c)[:40], where, 'writer and reader default: %r' % rdef)
    # ---- R-DATEDEFAULT: a date the writer makes up is written in the format the reader parses
    ctx.rule('R-DATEDEFAULT', 'the default revision date is formatted with the format string the reader parses the date line with')
    rfmts = set(const_str(c.args[1]) for c in walk_expr(rd) if isinstance(c, ast.Call) and isinstance(c.func, ast.Attribute) and c.func.attr == 'strptime' and len(c.args) == 2
                and const_str(c.args[1]) and 'WDATE' in norm(c.args[0]))
    kdate = consts.get('DATE_LINE')
    if kdate is None or kdate - 1 >= len(prints) or not rfmts:
        ctx.undec('R-DATEDEFAULT', 'date line', where, 'date line of the writer or the strptime format of the reader not found')
    else:
        pd_ = prints[kdate - 1]
        dfl = [c.args[2] for c in walk_expr(pd_) if isinstance(c, ast.Call) and dotted(c.func) == 'getattr' and len(c.args) == 3 and const_str(c.args[1]) == 'WDATE']
        if not dfl:
            ctx.ok('R-DATEDEFAULT', 'WDATE', where, 'no made-up default')
        for d_ in dfl:
            d_ = locs.get(d_.id, d_) if isinstance(d_, ast.Name) else d_
            fm_ = [const_str(c.args[0]) for c in walk_expr(d_) if isinstance(c, ast.Call) and isinstance(c.func, ast.Attribute) and c.func.attr == 'strftime' and c.args]
            if fm_ and fm_[0] in rfmts:
                ctx.ok('R-DATEDEFAULT', 'WDATE', where, 'default written with %r, parsed with %r' % (fm_[0], sorted(rfmts)))
            elif isinstance(d_, ast.Constant):
                ctx.undec('R-DATEDEFAULT', 'WDATE', where, 'constant default %r' % (d_.value,))
            else:
                ctx.violation(Finding('R-DATEDEFAULT', RP, W, pd_, 'a file without WDATE gets the revision date %s, but the reader parses that field with %s: the file just written does not re-open '
                                      '(and is not detected)' % (norm(d_)[:50], sorted(rfmts))))
    # ---- R-NAMESPLIT: the column-name line is cut at separators; a name is whatever stands between them
    ctx.rule('R-NAMESPLIT', 'reader: the names on the column line are what stands between the separators (str.split), not what a character class matches')
    nameb = [st for st in iter_stmts(rd.body) if isinstance(st, ast.If) and 'n_header_lines' in norm(st.test) and isinstance(st.test, ast.Compare) and norm(st.test.left) == 'li']
    done_ns = False
    for b_ in nameb:
        for st in iter_stmts(b_.body):
            if isinstance(st, ast.Assign) and norm(st.targets[0]) == 'variables' and not done_ns:
                done_ns = True
                if any(isinstance(c, ast.Call) and (dotted(c.func) or '').startswith('re.') for c in walk_expr(st.value)):
                    ctx.violation(Finding('R-NAMESPLIT', RP, 'ffi1001.__init__', st, 'the column names are collected with a regular expression (%s): a name with a character outside the class (PM2.5, NO2-LIF) '
                                          'is cut in pieces, the reader sees too many columns and the file it wrote itself does not re-open' % norm(st.value)[:50]))
                elif any(isinstance(c, ast.Call) and isinstance(c.func, ast.Attribute) and c.func.attr == 'split' for c in walk_expr(st.value)):
                    ctx.ok('R-NAMESPLIT', 'column line', 'src/PseudoNetCDF/%s ffi1001.__init__' % RP, norm(st.value)[:50])
                else:
                    ctx.undec('R-NAMESPLIT', 'column line', 'src/PseudoNetCDF/%s ffi1001.__init__' % RP, 'names from %s' % norm(st.value)[:50])
    if not done_ns:
        ctx.undec('R-NAMESPLIT', 'column line', 'src/PseudoNetCDF/%s ffi1001.__init__' % RP, 'assignment of the column names not found')
    # ---- R-SAMEINDEX: the per-variable tables are all read at the index of the variable
    ctx.rule('R-SAMEINDEX', 'reader: in the loop over the variables every per-variable list (scale, missing code, units, data, LOD flags) is read at the loop index itself')
    vloop = [st for st in iter_stmts(rd.body) if isinstance(st, ast.For) and isinstance(st.iter, ast.Call) and dotted(st.iter.func) == 'enumerate' and st.iter.args
             and norm(st.iter.args[0]) == 'variables' and isinstance(st.target, ast.Tuple)]
    if not vloop:
        ctx.undec('R-SAMEINDEX', 'variable loop', 'src/PseudoNetCDF/%s ffi1001.__init__' % RP, 'loop `for vi, var in enumerate(variables)` not found')
    for lp in vloop[:1]:
        iv_ = lp.target.elts[0].id
        nsi = 0
        for st in lp.body:
            if not isinstance(st, ast.Assign):
                continue
            # plain `x = L[vi]` and the tuple form `a, b = (L[vi], M[vi])`
            for sub in [x for x in ast.walk(st.value) if isinstance(x, ast.Subscript) and isinstance(x.value, ast.Name) and isinstance(x.ctx, ast.Load)
                        and iv_ in [y.id for y in ast.walk(x.slice) if isinstance(y, ast.Name)]]:
                nsi += 1
                if norm(sub.slice) == iv_:
                    ctx.ok('R-SAMEINDEX', norm(sub)[:30], 'src/PseudoNetCDF/%s ffi1001.__init__' % RP, 'indexed with %s' % iv_)
                else:
                    ctx.violation(Finding('R-SAMEINDEX', RP, 'ffi1001.__init__', st, '%s is read at %s while the other per-variable lists are read at %s: from the second dependent variable on each variable '
                                          'gets the entry of its predecessor (a missing code that is not its own, so its missing samples come back as data)' % (
                                              norm(sub.value), norm(sub.slice), iv_)))
        ctx.floor('per-variable lists read in the variable loop', nsi, 4)
        # the values are what the file holds: nothing is stored into the array built from the data column (limit-of-detection flags
        # stay flags; replacing them changes data and loses the flag at the next write)
        ctx.rule('R-VALSASREAD', 'reader: nothing is stored into the per-variable value array after it is built from the data column')
        built = [st for st in lp.body if isinstance(st, ast.Assign) and isinstance(st.targets[0], ast.Name) and isinstance(st.value, ast.Call) and 'MaskedArray' in norm(st.value.func)]
        if not built:
            ctx.undec('R-VALSASREAD', 'values', 'src/PseudoNetCDF/%s ffi1001.__init__' % RP, 'construction of the value array not found')
        else:
            vn_ = built[0].targets[0].id
            wr_ = [st for st in iter_stmts(lp.body) if isinstance(st, (ast.Assign, ast.AugAssign)) and any(isinstance(t, ast.Subscript) and isinstance(t.value, ast.Name) and t.value.id == vn_
                                                                                                        for t in (st.targets if isinstance(st, ast.Assign) else [st.target]))]
            if wr_:
                ctx.violation(Finding('R-VALSASREAD', RP, 'ffi1001.__init__', wr_[0], 'samples of %s are overwritten after reading (%s): values equal to a flag come back as another number and the flag is lost '
                                      'for good at the next write' % (vn_, norm(wr_[0])[:50])))
            else:
                ctx.ok('R-VALSASREAD', 'values', 'src/PseudoNetCDF/%s ffi1001.__init__' % RP, 'no store into %s' % vn_)
    # ---- R-LODSYM: the lower- and upper-limit-of-detection blocks of the reader use only their own names
    ctx.rule('R-LODSYM', 'reader: statements that build llod_* use no ulod_* name and vice versa (copy-paste symmetry)')
    nl = 0
    for st in iter_stmts(rdf.body):
        if isinstance(st, (ast.Assign, ast.AugAssign)):
            tg = st.targets[0] if isinstance(st, ast.Assign) else st.target
            if isinstance(tg, ast.Name) and tg.id[:5] in ('llod_', 'ulod_'):
                other = 'ulod_' if tg.id.startswith('llod_') else 'llod_'
                foreign = sorted(set(n.id for n in ast.walk(st.value) if isinstance(n, ast.Name) and n.id.startswith(other)) |
                                 set(n.attr for n in ast.walk(st.value) if isinstance(n, ast.Attribute) and n.attr.lower().startswith(other)))
                nl += 1
                if foreign:
                    ctx.violation(Finding('R-LODSYM', RP, 'ffi1001.__init__', st, '%s is built from %s: the %s limit list gets the length/values of the other one, so a header that declares one value per '
                                          'variable fails the length check and the written file does not re-open' % (tg.id, foreign, 'upper' if other == 'llod_' else 'lower')))
    if nl:
        if not any(o['rule'] == 'R-LODSYM' and o['status'] == 'violated' for o in ctx.obligations):
            ctx.ok('R-LODSYM', 'lod blocks', wrd, '%d statements, each within its own limit' % nl)
    # a prohibition (no statement of one limit uses names of the other): one shared helper for both limits satisfies it with fewer statements
    ctx.floor('limit-of-detection statements', nl, 2)
    # ---- R-SCALELINE: the data are written unscaled, so the declared scale factors are all 1
    ctx.rule('R-SCALELINE', 'the scale-factor line declares 1 for every variable (the data block is written as it is), or the data are divided by the declared factor')
    sc_print = prints[consts['SCALE_LINE'] - 1]
    lc = [n for n in ast.walk(sc_print) if isinstance(n, (ast.ListComp, ast.GeneratorExp))]
    rep_ = [n for n in ast.walk(sc_print) if isinstance(n, ast.BinOp) and isinstance(n.op, ast.Mult) and any(
        isinstance(x_, (ast.List, ast.Tuple)) and len(x_.elts) == 1 and isinstance(x_.elts[0], ast.Constant) and str(x_.elts[0].value) in ('1', '1.0') for x_ in (n.left, n.right))]
    if not lc and rep_:
        ctx.ok('R-SCALELINE', 'scale line', where, "constant '1' repeated %s times" % norm(rep_[0].right if isinstance(rep_[0].left, (ast.List, ast.Tuple)) else rep_[0].left))
    elif not lc:
        ctx.undec('R-SCALELINE', 'scale line', where, 'scale line not built by a comprehension')
    else:
        elt = lc[0].elt
        if isinstance(elt, ast.Constant) and str(elt.value) in ('1', '1.0'):
            ctx.ok('R-SCALELINE', 'scale line', where, 'constant %r per dependent variable' % elt.value)
        else:
            src_attr = [c for c in ast.walk(elt) if isinstance(c, ast.Call) and dotted(c.func) == 'getattr' and len(c.args) >= 2]
            key = const_str(src_attr[0].args[1]) if src_attr else None
            divided = any(isinstance(b, ast.BinOp) and isinstance(b.op, ast.Div) and key and ("'%s'" % key) in norm(b.right) for st in fn.body if isinstance(st, ast.For) and st is not data_loop
                          for b in ast.walk(st))
            if divided:
                ctx.ok('R-SCALELINE', 'scale line', where, 'declared factor %s and data divided by it' % key)
            else:
                ctx.violation(Finding('R-SCALELINE', RP, W, sc_print, 'the scale line declares %s per variable but the data block is written unscaled: the reader multiplies by the declared factor, so values of a variable '
                                      'that carries such an attribute come back multiplied by it' % norm(elt)[:50]))
    # ---- R-MISSFMT: the declared code is written with at least the precision of the data cells that carry it
    ctx.rule('R-MISSFMT', 'the declared missing code is converted to text with at least as many significant digits as the data cells')
    oneline(ctx, fn, data_loop, where)
    cells = cell_formats(data_loop)
    lossy = [(c, f, k) for c, f, k in cells if fmt_sig(f) is None or fmt_sig(f) < 17]
    # cells that hold the missing code: written like the other cells unless R-MISSCELL finds them singled out
    code_cells = misscell(ctx, fn, data_loop, cells, where)
    fmt0 = (code_cells or lossy or cells)[0][1]
    data_sig = fmt_sig(fmt0)

    def conv_sig(e):
        """significant digits kept by the text conversion that wraps the getattr call; None = not understood"""
        if isinstance(e, ast.Call) and dotted(e.func) in ('str', 'repr') and len(e.args) == 1:
            return 17, '%s()' % dotted(e.func)
        if isinstance(e, ast.BinOp) and isinstance(e.op, ast.Mod) and isinstance(e.left, ast.Constant) and isinstance(e.left.value, str):
            mm = re.match(r'^%(?:\.(\d+))?([sreEgGfdi])$', e.left.value)
            if not mm:
                return None, e.left.value
            prec, ch = mm.group(1), mm.group(2)
            if ch in 'sr':
                return 17, e.left.value
            if ch in 'gG':
                return (int(prec) if prec is not None else 6) or 1, e.left.value
            if ch in 'eE':
                return (int(prec) if prec is not None else 6) + 1, e.left.value
            if ch in 'di':
                return 0, e.left.value
            return None, e.left.value
        if isinstance(e, ast.JoinedStr) and len(e.values) == 1 and isinstance(e.values[0], ast.FormattedValue):
            fv_ = e.values[0]
            spec = const_str(fv_.format_spec.values[0]) if fv_.format_spec is not None and fv_.format_spec.values else ''
            if not spec:
                return 17, 'f-string'
            mm = re.match(r'^(?:\.(\d+))?([eEgG])$', spec)
            if mm:
                prec, ch = mm.group(1), mm.group(2)
                return ((int(prec) if prec is not None else 6) + (1 if ch in 'eE' else 0)), spec
            return None, spec
        return None, norm(e)[:30]
    conv = getattr(d, '_parent', None)
    sig, how = conv_sig(conv) if conv is not None else (None, '?')
    if sig is None or data_sig is None:
        ctx.undec('R-MISSFMT', 'declared code', where, 'text conversion of the declared code not understood: %s' % how)
    elif sig >= data_sig:
        ctx.ok('R-MISSFMT', 'declared code', where, '%s keeps %s significant digits >= %d of the data format %s' % (how, sig if sig < 17 else 'all', data_sig, fmt0))
    else:
        ctx.violation(Finding('R-MISSFMT', RP, W, miss_print, 'the declared missing code is written with %s (%d significant digits%s) while data cells carry it with %s (%d): '
                              'for a code with more digits the declared and the filled value differ and no cell reads back as missing' % (
                                  how, sig, ', integer part only' if sig == 0 else '', fmt0, data_sig)))
    if data_sig is not None and data_sig < 17:
        ctx.assumptions.append('missing-value codes have at most as many significant digits as the data format writes (%s)' % fmt0)
    # ---- R-MISSPARSE: the reader parses the scale and missing-code entries with a function that accepts what the writer emits
    ctx.rule('R-MISSPARSE', 'reader: the entries of the scale and missing-code lines are parsed with a function that accepts the decimal text the writer emits')
    rdf = mod.func('ffi1001.__init__')
    nparse = 0
    for st in iter_stmts(rdf.body):
        if not (isinstance(st, ast.If) and isinstance(st.test, ast.Compare) and isinstance(st.test.left, ast.Name) and st.test.left.id == 'li'
                and isinstance(st.test.comparators[0], ast.Name) and st.test.comparators[0].id in ('SCALE_LINE', 'MISSING_LINE')):
            continue
        which = st.test.comparators[0].id
        for s2 in st.body:
            if not (isinstance(s2, ast.Assign) and isinstance(s2.value, (ast.ListComp, ast.Call))):
                continue
            v = s2.value
            conv = None
            if isinstance(v, ast.ListComp) and isinstance(v.elt, ast.Call):
                conv = dotted(v.elt.func)
            elif isinstance(v, ast.Call) and dotted(v.func) in ('list', 'map') and v.args:
                inner = v.args[0] if dotted(v.func) == 'list' else v
                if isinstance(inner, ast.Call) and dotted(inner.func) == 'map' and inner.args:
                    conv = dotted(inner.args[0])
            if conv is None:
                continue
            nparse += 1
            wrd = 'src/PseudoNetCDF/%s ffi1001.__init__' % RP
            if conv in ('int', 'np.int32', 'np.int64', 'np.int_'):
                if which == 'MISSING_LINE' and sig == 0:
                    ctx.ok('R-MISSPARSE', which, wrd, 'integer parse of a code the writer formats as an integer')
                else:
                    ctx.violation(Finding('R-MISSPARSE', RP, 'ffi1001.__init__', s2,
                                          "the %s entries are parsed with %s(), which raises on decimal text: the writer emits %s of the value, '-999.0' or '1e+30' for a float "
                                          "code, so the library cannot re-open its own output" % (which, conv, how if which == 'MISSING_LINE' else 'a numeric literal')), oid=which)
            elif conv in ('eval', 'float', 'np.float64', 'np.float32', 'literal_eval', 'ast.literal_eval', 'np.float_'):
                ctx.ok('R-MISSPARSE', which, wrd, '%s() accepts integer and decimal literals' % conv)
            else:
                ctx.undec('R-MISSPARSE', which, wrd, 'parser %s not in the table' % conv)
    ctx.floor('scale / missing-code parsers judged by R-MISSPARSE', nparse, 2)
    # ---- R-PRECISION
    for c_, fmt, kind_ in (lossy or cells[:1]):
        m = re.match(r'^%\.(\d+)e$', fmt or '')
        if (m and int(m.group(1)) >= 6) or fmt_sig(fmt) == 17:
            ctx.ok('R-PRECISION', 'format', where, fmt)
        else:
            ctx.violation(Finding('R-PRECISION', RP, W, api.stmt_of(c_), 'data format is %r; seven significant digits need %%.6e or wider' % fmt))
    arr = [c for c in walk_expr(data_loop.iter) if isinstance(c, ast.Call) and (dotted(c.func) or '').split('.')[-1] == 'array']
    if arr:
        dt = kw(arr[0], 'dtype')
        if dt is None or norm(dt) in ("'d'", "'f8'", 'float', 'np.float64', "'float64'", "'>f8'", "'<f8'"):
            ctx.ok('R-PRECISION', 'matrix dtype', where, 'data matrix uses numpy promotion / float64')
        else:
            ctx.violation(Finding('R-PRECISION', RP, W, 'for row in %s' % norm(data_loop.iter), 'the data matrix is forced to dtype %s: dependent '
                                  'values are cast to it before formatting' % norm(dt), lineno=data_loop.lineno))
    # ---- R-EXACTMISS
    masks = [c for c in walk_expr(rd) if isinstance(c, ast.Call) and dotted(c.func) in ('MaskedArray', 'np.ma.MaskedArray', 'np.ma.masked_array', 'np.ma.array')
             and kw(c, 'mask') is not None]
    if not masks:
        raise AnalysisError('construct not understood: mask construction in the ffi1001 reader')
    from .. import paths as _paths
    mk = _paths.subst(kw(masks[0], 'mask'), _paths.dominating_env(rd, api.stmt_of(masks[0])))      # a named mask is the comparison that defines it
    tol = [dotted(c.func) for c in walk_expr(mk) if isinstance(c, ast.Call) and (dotted(c.func) or '').split('.')[-1] in ('isclose', 'allclose')]
    eq = isinstance(mk, ast.Compare) and isinstance(mk.ops[0], ast.Eq)
    if eq and not tol:
        ctx.ok('R-EXACTMISS', 'reader mask', 'src/PseudoNetCDF/%s ffi1001.__init__' % RP, norm(mk))
    else:
        ctx.violation(Finding('R-EXACTMISS', RP, 'ffi1001.__init__', api.stmt_of(masks[0]),
                              'the reader masks with %s instead of exact equality with the missing code: valid values near the code are masked' % norm(mk)))
