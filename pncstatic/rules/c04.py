"""C04 - stacking concatenates in order and inverts splitting (structural clauses).

R-ORDER     the file list reaches the concatenation / the stack call in argument order (order-preserving dataflow).
R-SUMLEN    the stacked dimension's length is the sum of the inputs' lengths over the same list.
R-MACONCAT  the concatenation is numpy.ma.concatenate on every path (masks are carried).
R-FIRSTWINS a variable without the stack dimension that is already in the output is never stored again.
R-UNLIM     the stacked / shared dimensions keep their unlimited flag (shared with C01).
R-FORELSE   no for/else search loop without break (its else would always run) in the multi-file helpers.
R-DELEGATE  the multi-file helpers return first.stack(rest, stackdim).
"""
import ast

from ..engine import AnalysisError, dotted, iter_stmts, norm, walk_expr, const_str, kw
from ..flow import Walker
from ..report import Finding
from ..sizealg import to_poly
from .. import unlim as U
from .. import api

LEVEL_TEXT = (
    "Static order-preserving dataflow and pairing checks (ast, path walker) on PseudoNetCDFFile.stack, stack_files, "
    "open_mfdataset and pncmfopen: the input list reaches numpy.ma.concatenate / stack unchanged in order, the stacked "
    "length is the sum over that same list, every concatenation is the masked one, an already-stored non-stacked "
    "variable is never overwritten by a later file, unlimited flags are propagated, search loops can terminate, "
    "and the helpers delegate to stack. Equality of data/masks and the split/stack inverse law are not decided.")

ORDER_BREAKERS = ('sorted', 'reversed', 'set', 'frozenset', 'dict', 'shuffle', 'random.shuffle', 'np.random.shuffle', 'np.sort', 'np.unique')


def order_sources(fn, name, seen=None):
    """Is every definition of *name* in fn an order-preserving function of parameters / other such names?
    returns (ok, offending stmt or None, leaves)"""
    seen = seen or set()
    if name in seen:
        return True, None, set()
    seen.add(name)
    params = set(a.arg for a in fn.args.args + fn.args.kwonlyargs) | ({fn.args.vararg.arg} if fn.args.vararg else set())
    leaves = set()
    defs = [st for st in iter_stmts(fn.body) if isinstance(st, ast.Assign) and any(isinstance(t, ast.Name) and t.id == name for t in st.targets)]
    # in-place reordering of the name
    for st in iter_stmts(fn.body):
        if isinstance(st, ast.Expr) and isinstance(st.value, ast.Call) and isinstance(st.value.func, ast.Attribute) \
                and isinstance(st.value.func.value, ast.Name) and st.value.func.value.id == name and st.value.func.attr in ('sort', 'reverse'):
            return False, st, leaves
    if not defs:
        if name in params:
            return True, None, set([name])
        return True, None, set([name])

    def ok_expr(e):
        if isinstance(e, ast.Name):
            o, s, l = order_sources(fn, e.id, seen)
            leaves.update(l)
            return o, s
        if isinstance(e, ast.List):
            for x in e.elts:
                if isinstance(x, ast.Starred):
                    o, s = ok_expr(x.value)
                    if not o:
                        return o, s
                elif isinstance(x, ast.Name):
                    leaves.add(x.id)
            return True, None
        if isinstance(e, ast.BinOp) and isinstance(e.op, ast.Add):
            for side in (e.left, e.right):
                o, s = ok_expr(side)
                if not o:
                    return o, s
            return True, None
        if isinstance(e, ast.Call) and dotted(e.func) in ('list', 'tuple') and len(e.args) == 1:
            return ok_expr(e.args[0])
        if isinstance(e, ast.Call) and (dotted(e.func) or '') in ORDER_BREAKERS:
            return False, None
        if isinstance(e, ast.ListComp) and len(e.generators) == 1 and not e.generators[0].ifs:
            return ok_expr(e.generators[0].iter)
        if isinstance(e, ast.Subscript) and isinstance(e.slice, ast.Slice):
            st = e.slice.step
            if st is not None and not (isinstance(st, ast.Constant) and st.value == 1):
                return False, None
            return ok_expr(e.value)
        if isinstance(e, ast.Subscript):
            return ok_expr(e.value)
        if isinstance(e, (ast.SetComp, ast.DictComp, ast.Set, ast.Dict)):
            return False, None
        # views of a dictionary keep one entry per key: repeated inputs collapse (and the order is that of first insertion)
        if isinstance(e, ast.Call) and isinstance(e.func, ast.Attribute) and e.func.attr in ('values', 'keys', 'items'):
            return False, None
        return None, None    # not understood
    for d in defs:
        o, s = ok_expr(d.value)
        if o is False:
            return False, (s or d), leaves
        if o is None:
            return None, d, leaves
    return True, None, leaves


def concat_calls(fn):
    return [c for c in walk_expr(fn) if isinstance(c, ast.Call) and (dotted(c.func) or '').split('.')[-1] == 'concatenate']


def check_stack_like(ctx, rp, q, listname, first_wins_target):
    mod = ctx.src.mod(rp)
    fn = mod.func(q)
    where = 'src/PseudoNetCDF/%s %s' % (rp, q)
    cc = concat_calls(fn)
    if not cc:
        raise AnalysisError('anchor vanished: concatenate call in %s' % q)
    for c in cc:
        d = dotted(c.func)
        if d in ('np.ma.concatenate', 'numpy.ma.concatenate', 'ma.concatenate'):
            ctx.ok('R-MACONCAT', '%s:%d' % (q, c.lineno), where, d)
        else:
            ctx.violation(Finding('R-MACONCAT', rp, q, api.stmt_of(c), '%s drops the masks of masked inputs; stacking must use numpy.ma.concatenate' % d))
        # R-STACKAXIS: the pieces are joined along the position the stack dimension has in this variable
        ax = kw(c, 'axis') if kw(c, 'axis') is not None else (c.args[1] if len(c.args) > 1 else None)

        def is_pos(e, depth=0):
            if isinstance(e, ast.Call) and isinstance(e.func, ast.Attribute) and e.func.attr == 'index' and e.args and norm(e.args[0]) == 'stackdim' \
                    and norm(e.func.value) in ('list(var.dimensions)', 'var.dimensions', 'tuple(var.dimensions)'):
                return True
            if isinstance(e, ast.Name) and depth < 3:
                defs = [s2 for s2 in iter_stmts(fn.body) if isinstance(s2, ast.Assign) and any(isinstance(t, ast.Name) and t.id == e.id for t in s2.targets)]
                return bool(defs) and all(is_pos(d.value, depth + 1) for d in defs)
            return False
        if ax is None:
            ctx.violation(Finding('R-STACKAXIS', rp, q, api.stmt_of(c), 'the pieces are concatenated without axis=: they are joined along the first axis '
                                  'whatever position the stack dimension has in the variable'))
        elif is_pos(ax):
            ctx.ok('R-STACKAXIS', '%s:%d' % (q, c.lineno), where, 'axis=%s = position of stackdim in var.dimensions' % norm(ax))
        else:
            ctx.violation(Finding('R-STACKAXIS', rp, q, api.stmt_of(c), 'the concatenation axis %s is not the position of the stack dimension in this '
                                  "variable's dimensions" % norm(ax)))
        seq = c.args[0] if c.args else None
        # the pieces are the data read from each file variable (var[:] / var[...] is a masked array for a disk-backed variable whose
        # cells are missing); the variable objects themselves are converted to plain arrays and lose their masks
        if isinstance(seq, ast.ListComp):
            elt = seq.elt
            reads = [n_ for n_ in ast.walk(elt) if isinstance(n_, ast.Subscript) and (isinstance(n_.slice, ast.Slice) or (isinstance(n_.slice, ast.Constant) and n_.slice.value is Ellipsis))
                     and '.variables[' in norm(n_.value)]
            objs = [n_ for n_ in ast.walk(elt) if isinstance(n_, ast.Subscript) and norm(n_.value).endswith('.variables')]
            if objs and not reads:
                ctx.violation(Finding('R-MACONCAT', rp, q, api.stmt_of(c), 'the variable objects themselves (%s) are handed to the concatenation instead of the data read from them '
                                      '(var[:]): a disk-backed variable is then converted to a plain array and the cells that are missing in the file lose their mask' % norm(elt)),
                              oid='%s:%d:pieces' % (q, c.lineno))
            elif reads:
                ctx.ok('R-MACONCAT', '%s:%d:pieces' % (q, c.lineno), where, 'pieces are %s' % norm(elt))
        nm = None
        if isinstance(seq, ast.ListComp) and len(seq.generators) == 1 and not seq.generators[0].ifs and isinstance(seq.generators[0].iter, ast.Name):
            nm = seq.generators[0].iter.id
        elif isinstance(seq, ast.Name):
            nm = seq.id
        if nm is None:
            ctx.undec('R-ORDER', '%s:%d' % (q, c.lineno), where, 'sequence argument of concatenate not understood')
            continue
        o, st, leaves = order_sources(fn, nm)
        if o is True:
            ctx.ok('R-ORDER', '%s:%d' % (q, c.lineno), where, 'concatenates over %s <- %s, order preserved' % (nm, sorted(leaves)))
        elif o is False:
            ctx.violation(Finding('R-ORDER', rp, q, st if st is not None else api.stmt_of(c), 'the file list is reordered before concatenation: '
                                  'data are not stacked in argument order'))
        else:
            ctx.undec('R-ORDER', '%s:%d' % (q, c.lineno), where, 'definition of %s not understood: %s' % (nm, norm(st)[:60]))
    # R-ONCE: a sequence argument that is materialised with list(...) may be a one-shot iterable: nothing else may iterate it
    for a_ in fn.args.args:
        pn = a_.arg
        mats = [c for c in walk_expr(fn) if isinstance(c, ast.Call) and dotted(c.func) in ('list', 'tuple') and len(c.args) == 1 and isinstance(c.args[0], ast.Name) and c.args[0].id == pn]
        if not mats:
            continue
        others = []
        for n_ in ast.walk(fn):
            if isinstance(n_, ast.comprehension) and isinstance(n_.iter, ast.Name) and n_.iter.id == pn:
                others.append(n_.iter)
            if isinstance(n_, ast.For) and isinstance(n_.iter, ast.Name) and n_.iter.id == pn:
                others.append(n_.iter)
            if isinstance(n_, ast.Call) and dotted(n_.func) in ('sorted', 'enumerate', 'zip', 'map', 'sum', 'len', 'reversed') and any(isinstance(x, ast.Name) and x.id == pn for x in n_.args):
                others.append(n_)
        # a re-binding p = list(p) before any other use makes later iterations harmless
        rebind = [st for st in iter_stmts(fn.body) if isinstance(st, ast.Assign) and any(isinstance(t, ast.Name) and t.id == pn for t in st.targets)
                  and any(m in list(ast.walk(st.value)) for m in mats)]
        first_rebind = min([st.lineno for st in rebind]) if rebind else None
        bad_ = [o for o in others if first_rebind is None or o.lineno < first_rebind]
        if len(mats) + len(bad_) > 1 and bad_:
            ctx.violation(Finding('R-ONCE', rp, q, api.stmt_of(bad_[0]), 'the argument %s is iterated here and again by list(%s): a generator or other one-shot iterable is exhausted by the first pass, '
                                  'so the files to stack (or their dimensions) are silently missing from the second' % (pn, pn)))
        else:
            ctx.ok('R-ONCE', '%s:%s' % (q, pn), where, 'consumed once (list(%s)); every later pass runs over the list' % pn)
    # R-ATTRFIRST: global attributes of the result come from the first file
    for c in walk_expr(fn):
        if isinstance(c, ast.Call) and isinstance(c.func, ast.Attribute) and c.func.attr == 'addGlobalProperties' and c.args and isinstance(c.args[0], ast.Name):
            x = c.args[0].id
            loops_ = [l_ for l_ in ast.walk(fn) if isinstance(l_, ast.For) and l_.lineno < c.lineno and any(isinstance(n_, ast.Name) and n_.id == x for n_ in ast.walk(l_.target))
                      and not any(n_ is c for n_ in ast.walk(l_))]
            if loops_:
                ctx.violation(Finding('R-ATTRFIRST', rp, q, api.stmt_of(c), 'global attributes are copied from %s after the loop `for %s in %s` has re-bound it: they come from the last file, not the first' % (
                    x, norm(loops_[-1].target), norm(loops_[-1].iter))))
            else:
                ctx.ok('R-ATTRFIRST', '%s:%s' % (q, norm(c)[:40]), where, 'attributes copied from %s before any loop re-binds it' % x)
    # the receiver comes first
    if fn.args.args and fn.args.args[0].arg == 'self':
        # the list as it stands when it is first iterated, on every path to that point, with its successive re-bindings substituted
        from .. import paths as _paths
        uses = [st for st in fn.body if isinstance(st, (ast.For, ast.Assign, ast.Expr)) and not (isinstance(st, ast.Assign) and any(isinstance(t, ast.Name) and t.id == listname for t in st.targets))
                and any(isinstance(n, ast.Name) and n.id == listname and isinstance(n.ctx, ast.Load) for n in ast.walk(st.iter if isinstance(st, ast.For) else st.value))]
        defs_ = [st for st in iter_stmts(fn.body) if isinstance(st, ast.Assign) and any(isinstance(t, ast.Name) and t.id == listname for t in st.targets)]
        forms = {}
        if uses:
            stop = fn.body.index(uses[0])
            for pth in _paths.enumerate_paths(fn.body[:stop], relevant=_paths.relevance(fn.body[:stop], defs_)):
                if pth.exit[0] == 'raise':
                    continue
                res = _paths.expand(pth)
                if res.feasible and listname in res.env:
                    forms[norm(res.env[listname])] = res.env[listname]
        if not forms:
            forms = dict((norm(d.value), d.value) for d in defs_)
        for txt, e in sorted(forms.items()):
            while isinstance(e, ast.BinOp):
                e = e.left
            first = e.elts[0] if isinstance(e, ast.List) and e.elts else None
            d = defs_[0] if defs_ else fn.body[0]
            if isinstance(first, ast.Name) and first.id == 'self':
                ctx.ok('R-ORDER', '%s:%s' % (q, txt[:40]), where, 'receiver is the first element')
            else:
                ctx.violation(Finding('R-ORDER', rp, q, d, 'the receiver is not the first element of the stacked list: data are not in argument order'))
    # R-SUMLEN
    sums = [c for c in walk_expr(fn) if isinstance(c, ast.Call) and dotted(c.func) == 'sum' and c.args and isinstance(c.args[0], (ast.ListComp, ast.GeneratorExp))]
    good = None
    for c in sums:
        lc = c.args[0]
        if norm(lc.elt).startswith('len(') and 'stackdim' in norm(lc.elt) and isinstance(lc.generators[0].iter, ast.Name):
            it = lc.generators[0].iter.id
            o, st, leaves = order_sources(fn, it)
            # the list summed over must come from the same file list as the concatenation
            base = set()
            for s2 in iter_stmts(fn.body):
                if isinstance(s2, ast.Assign) and isinstance(s2.targets[0], ast.Name) and s2.targets[0].id == it and isinstance(s2.value, ast.ListComp):
                    if isinstance(s2.value.generators[0].iter, ast.Name):
                        base.add(s2.value.generators[0].iter.id)
            good = (c, it, base)
    if good and (listname in good[2]):
        # and it is the length given to the stacked dimension
        st = api.stmt_of(good[0])
        used = False
        if isinstance(st, ast.Assign) and isinstance(st.targets[0], ast.Name):
            nm = st.targets[0].id
            used = any(isinstance(c, ast.Call) and isinstance(c.func, ast.Attribute) and c.func.attr in ('copyDimension', 'createDimension')
                       and nm in [n.id for n in ast.walk(c) if isinstance(n, ast.Name)] and 'stackdim' in norm(c) for c in walk_expr(fn))
        else:
            used = any(isinstance(c, ast.Call) and isinstance(c.func, ast.Attribute) and c.func.attr in ('copyDimension', 'createDimension')
                       and good[0] in list(walk_expr(c)) for c in walk_expr(fn))
        if used:
            ctx.ok('R-SUMLEN', q, where, 'stacked length = sum(len(dims[stackdim]) for dims in %s) over %s' % (good[1], listname))
        else:
            ctx.undec('R-SUMLEN', q, where, 'sum found but not given to the stacked dimension in a recognised way')
    else:
        ctx.undec('R-SUMLEN', q, where, 'length of the stacked dimension is not spelled as a sum over the file list')
    # R-FIRSTWINS (typestate: "present in output" at the store)
    out = first_wins_target
    # path-wise over the per-variable loop body, named conditions substituted: every path that stores a variable into the output has
    # decided that the key is not there yet
    from .. import paths as _paths
    loops = [s for s in iter_stmts(fn.body) if isinstance(s, ast.For) and isinstance(s.target, ast.Tuple) and len(s.target.elts) == 2
             and isinstance(s.target.elts[0], ast.Name) and norm(s.iter).endswith('.variables.items()')]
    if not loops:
        raise AnalysisError('construct not understood: per-variable loop of %s' % q)
    kname = loops[0].target.elts[0].id
    present = ('%s in %s.variables' % (kname, out), '%s in %s.variables.keys()' % (kname, out))
    hits = {}
    for pth in _paths.enumerate_paths(loops[0].body):
        res = _paths.expand(pth, keep=(out,))
        if not res.feasible:
            continue
        for k_, (s, new) in enumerate(res.stmts):
            if isinstance(s, (ast.If, ast.For, ast.While)):
                continue
            for c in walk_expr(s):
                if isinstance(c, ast.Call) and isinstance(c.func, ast.Attribute) and c.func.attr in ('copyVariable', 'addVariable', 'createVariable') \
                        and (norm(c.func.value) == out or out in [norm(a) for a in c.args[:2]]):
                    before = res.conds[:res.ncond_at[k_]]
                    pres = None
                    for e_, x, p_ in before:
                        if norm(x) in present:
                            pres = p_
                    hits.setdefault(id(s), (s, []))[1].append(pres)
    if not hits:
        raise AnalysisError('construct not understood: variable store in %s' % q)
    for s, press in hits.values():
        if all(p_ is False for p_ in press):
            ctx.ok('R-FIRSTWINS', '%s:%d' % (q, s.lineno), where, 'store reached only when the key is not yet in the output (%d paths)' % len(press))
        else:
            ctx.violation(Finding('R-FIRSTWINS', rp, q, s, 'a variable that is already in the output can reach this store: a later file '
                                  'overwrites the value taken from the first file'))


def check_forelse(ctx, rp, q):
    fn = ctx.src.mod(rp).func(q)
    where = 'src/PseudoNetCDF/%s %s' % (rp, q)
    n = 0
    for st in iter_stmts(fn.body):
        if isinstance(st, (ast.For, ast.While)) and st.orelse:
            n += 1
            leaves = False
            for s2 in iter_stmts(st.body):
                if isinstance(s2, (ast.Break, ast.Return, ast.Raise)):
                    # break must belong to this loop (not a nested one)
                    p = getattr(s2, '_parent', None)
                    inner = False
                    while p is not None and p is not st:
                        if isinstance(p, (ast.For, ast.While)):
                            inner = True
                        p = getattr(p, '_parent', None)
                    if not inner or not isinstance(s2, ast.Break):
                        leaves = True
            if leaves:
                ctx.ok('R-FORELSE', '%s:%d' % (q, st.lineno), where, 'search loop can leave before its else clause')
            else:
                ctx.violation(Finding('R-FORELSE', rp, q, 'for %s in %s: ... else: ...' % (norm(st.target), norm(st.iter)) if isinstance(st, ast.For) else 'while ... else',
                                      'this loop has no break/return/raise, so its else clause always runs (here it ends in the '
                                      '"must specify stackdim" error for every input)', lineno=st.lineno))
    return n


def check_stack_default(ctx, rp, q, rule='R-STACKDEFAULT'):
    """the default stack dimension: the unlimited (record) dimension of the first file; a dimension with a time-like name only when no
    dimension is unlimited.  Decided on the shape of the search: the choice made from isunlimited() is not replaced by a later choice
    (the later choice sits in the else clause of the first search, or under a test that nothing was chosen yet), and an earlier choice
    does not keep the unlimited search from running."""
    fn = ctx.src.mod(rp).func(q)
    where = 'src/PseudoNetCDF/%s %s' % (rp, q)
    params = [a.arg for a in fn.args.args + fn.args.kwonlyargs]
    if 'stackdim' not in params:
        return 0
    ctx.rule(rule, 'default stack dimension: the unlimited dimension wins; a time-like name is only the fallback when no dimension is unlimited')
    # the names the choice travels through: stackdim and every local that is copied into it (a helper's result variable after inlining)
    tracked = set(['stackdim'])
    copies = []
    loopvars = set(n_.id for st in iter_stmts(fn.body) if isinstance(st, ast.For) for n_ in ast.walk(st.target) if isinstance(n_, ast.Name))
    changed = True
    while changed:
        changed = False
        for st in iter_stmts(fn.body):
            if isinstance(st, ast.Assign) and len(st.targets) == 1 and isinstance(st.targets[0], ast.Name) and st.targets[0].id in tracked and isinstance(st.value, ast.Name) \
                    and st.value.id not in tracked and st.value.id not in loopvars:
                tracked.add(st.value.id)
                changed = True
    for st in iter_stmts(fn.body):
        if isinstance(st, ast.Assign) and len(st.targets) == 1 and isinstance(st.targets[0], ast.Name) and st.targets[0].id in tracked and \
                ((isinstance(st.value, ast.Name) and st.value.id in tracked) or (isinstance(st.value, ast.Constant) and st.value.value is None)):
            copies.append(st)
    assigns = [st for st in iter_stmts(fn.body) if isinstance(st, ast.Assign) and any(isinstance(t, ast.Name) and t.id in tracked for t in st.targets) and st not in copies]
    none_tests = tuple('%s is None' % t for t in tracked) + tuple('not %s' % t for t in tracked)

    def chain(st):
        out, p = [], getattr(st, '_parent', None)
        child = st
        while p is not None and p is not fn:
            out.append((p, child))
            child, p = p, getattr(p, '_parent', None)
        return out
    byunlim = [st for st in assigns if any(isinstance(p_, ast.If) and 'isunlimited' in norm(p_.test) for p_, c_ in chain(st))]
    others = [st for st in assigns if st not in byunlim]
    if not byunlim:
        if assigns:
            ctx.violation(Finding(rule, rp, q, assigns[0], 'the default stack dimension is never chosen from isunlimited(): files are stacked along a name, not along their record dimension'))
        else:
            ctx.undec(rule, q, where, 'no default choice of stackdim')
        return 1
    a1 = byunlim[0]
    loop1 = [p_ for p_, c_ in chain(a1) if isinstance(p_, (ast.For, ast.While))]
    # a flag that is set together with the choice (`found = True` next to it, False before) says the same as `stackdim is not None`
    sib = getattr(a1, '_parent', None)
    flags = set()
    for f_ in ('body', 'orelse'):
        lst = getattr(sib, f_, None)
        if isinstance(lst, list) and a1 in lst:
            flags |= set(t.id for s2 in lst if isinstance(s2, ast.Assign) and isinstance(s2.value, ast.Constant) and s2.value.value is True for t in s2.targets if isinstance(t, ast.Name))
    flags = set(f_ for f_ in flags if any(isinstance(s2, ast.Assign) and isinstance(s2.value, ast.Constant) and s2.value.value is False and any(isinstance(t, ast.Name) and t.id == f_ for t in s2.targets)
                                          and s2.lineno < a1.lineno for s2 in iter_stmts(fn.body)))
    none_tests = none_tests + tuple('not %s' % f_ for f_ in flags)
    bad = None
    for a2 in others:
        ch = chain(a2)
        none_guard = any(isinstance(p_, ast.If) and norm(p_.test) in none_tests and any(c_ is b for b in p_.body) and p_.lineno > a1.lineno for p_, c_ in ch)
        in_else = bool(loop1) and any(p_ is loop1[0] and any(c_ is b for b in p_.orelse) for p_, c_ in ch)
        if a2.lineno > a1.lineno:
            if not (none_guard or in_else):
                bad = (a2, 'this later choice (%s) also runs when an unlimited dimension was found and replaces it' % norm(a2))
        else:
            g1 = any(isinstance(p_, ast.If) and norm(p_.test) in none_tests and p_.lineno > a2.lineno for p_, c_ in chain(a1))
            e1 = any(isinstance(p_, (ast.For, ast.While)) and any(c_ is b for b in p_.orelse) for p_, c_ in chain(a1))
            if g1 or e1:
                bad = (a1, 'the unlimited dimension is looked for only when the earlier choice (%s) found nothing' % norm(a2))
    if bad:
        ctx.violation(Finding(rule, rp, q, bad[0], bad[1] + ': files whose record dimension is not the time-named one are stacked along the wrong dimension'))
    else:
        ctx.ok(rule, q, where, 'choice by isunlimited() first; %d name-based choice(s) only as fallback' % len(others))
    return 1


def check_stack_imports(ctx, rule='R-STDIMPORT'):
    """every stack method of the package (the base one and each override a reader class adds) can be entered: a name imported from a
    standard-library module inside the method exists in that module on the installed interpreter (collections.Iterable moved to
    collections.abc; importing it from the old place raises for every call, so files of that reader cannot be stacked at all)."""
    import importlib
    import sys
    ctx.rule(rule, 'stack methods (base and overrides): names imported from the standard library inside the method exist on the installed interpreter')
    std = set(getattr(sys, 'stdlib_module_names', ()))
    n = 0
    for m in ctx.src.all_modules():
        for q, fn in sorted(m.functions.items()):
            if q.split('.')[-1] not in ('stack', 'stack_files', 'open_mfdataset', 'pncmfopen') or '<locals>' in q:
                continue
            n += 1
            bad = None
            for st in iter_stmts(fn.body):
                if isinstance(st, ast.ImportFrom) and st.level == 0 and st.module and st.module.split('.')[0] in std:
                    try:
                        lib = importlib.import_module(st.module)
                    except Exception:
                        bad = (st, 'module %s does not exist' % st.module)
                        continue
                    for a in st.names:
                        if a.name != '*' and not hasattr(lib, a.name):
                            bad = (st, '%s has no %s on this interpreter' % (st.module, a.name))
            where = 'src/PseudoNetCDF/%s %s' % (m.relpath, q)
            if bad:
                ctx.violation(Finding(rule, m.relpath, q, bad[0], '%s: the import is executed on every call, so %s raises ImportError for every input and files of this class cannot be stacked'
                                      % (bad[1], q)))
            else:
                ctx.ok(rule, q, where, 'imports inside the method resolve')
    ctx.floor('stack methods examined for imports', n, 4)


def check_stack_time_units(ctx, rule='R-TIMEUNITS'):
    """a stack override that rebuilds the time coordinate writes the unit word that belongs to its own conversion factor: values
    computed as total_seconds() / 3600 are hours, whatever unit the inputs used"""
    ctx.rule(rule, 'stack overrides that rebuild the time coordinate: the unit word of the new units string matches the divisor applied to total_seconds()')
    UNIT = {3600: 'hours', 60: 'minutes', 1: 'seconds', 86400: 'days'}
    n = 0
    for m in ctx.src.all_modules():
        for q, fn in sorted(m.functions.items()):
            if q.split('.')[-1] != 'stack' or '<locals>' in q:
                continue
            ust = [st for st in iter_stmts(fn.body) if isinstance(st, ast.Assign) and any(isinstance(t, ast.Attribute) and t.attr == 'units' for t in st.targets) and 'since' in norm(st.value)]
            divs = [x.right.value for x in ast.walk(fn) if isinstance(x, ast.BinOp) and isinstance(x.op, ast.Div) and isinstance(x.right, ast.Constant)
                    and 'total_seconds' in norm(x.left) and isinstance(x.right.value, (int, float))]
            if not ust or not divs:
                continue
            n += 1
            where = 'src/PseudoNetCDF/%s %s' % (m.relpath, q)
            want = UNIT.get(int(divs[0]))
            v = ust[-1].value
            lead = v
            while isinstance(lead, ast.BinOp) and isinstance(lead.op, ast.Add):
                lead = lead.left
            word = const_str(lead).split()[0] if const_str(lead) else None
            if want is None:
                ctx.undec(rule, q, where, 'divisor %r is no time unit' % divs[0])
            elif word == want:
                ctx.ok(rule, q, where, "values in %s (total_seconds() / %s), units '%s since ...'" % (want, divs[0], word))
            else:
                ctx.violation(Finding(rule, m.relpath, q, ust[-1], 'the new time values are total_seconds() / %s, i.e. %s, but the units string starts with %s: for inputs whose time axis is not in %s the '
                                      'decoded times of the stacked file are compressed or stretched' % (divs[0], want, ('the literal %r' % word) if word else ('%s (taken from the input)' % norm(lead)), want)))
    ctx.count('stack overrides that rebuild a time coordinate', n)


def check_stack_signature(ctx, rule='R-STACKSIG'):
    """sibling agreement of the stack methods: the helpers of the package call `file1.stack(files[1:], stackdim=...)` on whatever class
    the reader returned, so every override has to accept the keywords those callers use; and an override must define the locals it
    reads on every path (one that rebuilds the time axis only for the time dimension must not touch it for another dimension)."""
    import builtins
    from .. import paths as _paths
    ctx.rule(rule, 'stack overrides: every keyword the package passes to .stack() is a parameter of every override, and no local is read on a path that never binds it')
    kws = {}
    for m in ctx.src.all_modules():
        for c in ast.walk(m.tree):
            if isinstance(c, ast.Call) and isinstance(c.func, ast.Attribute) and c.func.attr == 'stack' and not (isinstance(c.func.value, ast.Name) and c.func.value.id in ('np', 'numpy', 'ma')) \
                    and not (dotted(c.func) or '').startswith(('np.', 'numpy.')):
                for k in c.keywords:
                    if k.arg:
                        kws.setdefault(k.arg, '%s:%d' % (m.relpath, c.lineno))
    n = 0
    for m in ctx.src.all_modules():
        for q, fn in sorted(m.functions.items()):
            if q.split('.')[-1] != 'stack' or '<locals>' in q or '.' not in q:
                continue
            n += 1
            where = 'src/PseudoNetCDF/%s %s' % (m.relpath, q)
            params = [a.arg for a in fn.args.args + fn.args.kwonlyargs]
            missing = [k for k in sorted(kws) if k not in params and fn.args.kwarg is None]
            if missing:
                ctx.violation(Finding(rule, m.relpath, q, 'def stack(%s)' % ', '.join(params), 'the package calls .stack(..., %s=...) (%s) on files of any reader class, but this override has no parameter of that '
                                      'name: stacking files of this class through pncmfopen / open_mfdataset raises TypeError' % (missing[0], kws[missing[0]]), lineno=fn.lineno), oid=q + ':kw')
            else:
                ctx.ok(rule, q + ':kw', where, 'accepts %s' % ', '.join(sorted(kws)) if kws else 'no keyword callers')
            # locals bound on every path before they are read
            stored = set()
            for x in ast.walk(fn):
                if isinstance(x, ast.Name) and isinstance(x.ctx, ast.Store):
                    stored.add(x.id)
                elif isinstance(x, (ast.Import, ast.ImportFrom)):
                    for a in x.names:
                        stored.add((a.asname or a.name).split('.')[0])
            stored -= set(params)
            bad = None
            for pth in _paths.enumerate_paths(fn.body):
                # skip paths that decide one test both ways
                seen, contradictory = {}, False
                for e, pol in pth.conds:
                    t = norm(e)
                    if t in seen and seen[t] != pol:
                        contradictory = True
                    seen[t] = pol
                if contradictory:
                    continue
                bound = set()
                for kind, *rest in pth.items:
                    node = rest[0]
                    reads = []
                    if kind == 'cond':
                        reads = [x for x in ast.walk(node) if isinstance(x, ast.Name) and isinstance(x.ctx, ast.Load)]
                        newly = set()
                    else:
                        newly = set(x.id for x in ast.walk(node) if isinstance(x, ast.Name) and isinstance(x.ctx, ast.Store))
                        for x in ast.walk(node):
                            if isinstance(x, (ast.Import, ast.ImportFrom)):
                                newly.update((a.asname or a.name).split('.')[0] for a in x.names)
                        if isinstance(node, (ast.For, ast.While, ast.Try, ast.With)):
                            reads = []          # opaque element: its own reads are not ordered here
                        elif isinstance(node, ast.AugAssign):
                            reads = [x for x in ast.walk(node) if isinstance(x, ast.Name)]
                        else:
                            comp_targets = set(t.id for c_ in ast.walk(node) if isinstance(c_, ast.comprehension) for t in ast.walk(c_.target) if isinstance(t, ast.Name))
                            reads = [x for x in ast.walk(node) if isinstance(x, ast.Name) and isinstance(x.ctx, ast.Load) and x.id not in comp_targets]
                    for x in reads:
                        if x.id in stored and x.id not in bound and not hasattr(builtins, x.id):
                            bad = (x, node, pth)
                            break
                    if bad:
                        break
                    bound |= newly
                if bad:
                    break
            if bad:
                x, node, pth = bad
                how = ', '.join('%s is %s' % (norm(e)[:40], 'true' if pol else 'false') for e, pol in pth.conds[-2:]) or 'the straight path'
                ctx.violation(Finding(rule, m.relpath, q, api.stmt_of(x) if not isinstance(node, ast.expr) else norm(node), 'the local %s is read on a path that never binds it (%s): stacking along such a '
                                      'dimension raises UnboundLocalError instead of returning the concatenation' % (x.id, how), lineno=x.lineno), oid=q + ':def')
            else:
                ctx.ok(rule, q + ':def', where, 'every local is bound before it is read on every path')
    ctx.floor('stack methods examined for their signature', n, 2)


def check_delegate(ctx, rp, q):
    fn = ctx.src.mod(rp).func(q)
    where = 'src/PseudoNetCDF/%s %s' % (rp, q)
    rets = [s for s in iter_stmts(fn.body) if isinstance(s, ast.Return)]
    if not rets:
        raise AnalysisError('anchor vanished: return of %s' % q)
    r = rets[-1].value
    good = isinstance(r, ast.Call) and isinstance(r.func, ast.Attribute) and r.func.attr == 'stack' and isinstance(r.func.value, ast.Name)
    if not good:
        ctx.violation(Finding('R-DELEGATE', rp, q, rets[-1], 'the multi-file helper does not return first.stack(rest, stackdim=...)'))
        return
    # names are resolved through the plain assignments that dominate the return (paths.dominating_env), one level at a time
    from .. import paths as _paths
    env = _paths.dominating_env(fn, rets[-1], deep=False)

    def resolve(e):
        for _ in range(6):
            if isinstance(e, ast.Name) and e.id in env:
                e = env[e.id]
            else:
                break
        return e
    first = resolve(r.func.value)
    rest = resolve(r.args[0]) if r.args else None
    ok1 = isinstance(first, ast.Subscript) and norm(first.slice) == '0' and isinstance(first.value, ast.Name)
    lname = norm(first.value) if ok1 else None
    ok2 = isinstance(rest, ast.Subscript) and norm(rest.value) == lname and norm(rest.slice) == '1:'
    sd = kw(r, 'stackdim') or (r.args[1] if len(r.args) > 1 else None)
    ok3 = sd is not None and norm(sd) == 'stackdim'
    if ok1 and ok2 and ok3:
        ctx.ok('R-DELEGATE', q, where, 'returns %s[0].stack(%s[1:], stackdim=stackdim)' % (lname, lname))
        o, st, leaves = order_sources(fn, lname)
        if o is True:
            ctx.ok('R-ORDER', q, where, '%s built from %s in order' % (lname, sorted(leaves)))
        elif o is False:
            ctx.violation(Finding('R-ORDER', rp, q, st, 'the list of opened files is not the path list in order (reordered, or taken from a dictionary that keeps one entry per distinct path): inputs are missing or stacked out of order'))
        else:
            ctx.undec('R-ORDER', q, where, 'definition of %s not understood' % lname)
        # the iterated paths themselves
        for l in sorted(leaves):
            o2, st2, _ = order_sources(fn, l)
            if o2 is False:
                ctx.violation(Finding('R-ORDER', rp, q, st2, 'the path list %s is reordered before the files are opened and stacked' % l))
    else:
        ctx.violation(Finding('R-DELEGATE', rp, q, rets[-1], 'the helper must stack files[0] with files[1:] along stackdim'))


def run(ctx):
    for r, d in (('R-ORDER', 'file list reaches concatenate / stack in argument order'),
                 ('R-SUMLEN', 'stacked length = sum of the input lengths over the same list'),
                 ('R-MACONCAT', 'concatenation is numpy.ma.concatenate on every path'),
                 ('R-ONCE', 'a sequence argument that may be a one-shot iterable is consumed exactly once'),
                 ('R-ATTRFIRST', 'global attributes of a stacked file come from the first file'),
                 ('R-STACKAXIS', 'the concatenation axis is the position of the stack dimension in each variable'),
                 ('R-FIRSTWINS', 'an already stored non-stacked variable is never stored again'),
                 ('R-UNLIM', 'unlimited flags of stacked/shared dimensions propagated'),
                 ('R-FORELSE', 'no for/else without break in the multi-file helpers'),
                 ('R-DELEGATE', 'multi-file helpers return files[0].stack(files[1:], stackdim)')):
        ctx.rule(r, d)
    check_stack_like(ctx, 'core/_files.py', 'PseudoNetCDFFile.stack', 'fs', 'outf')
    check_stack_like(ctx, 'core/_functions.py', 'stack_files', 'fs', 'f')
    # R-UNLIM restricted to the two stackers
    from .c01 import check_copydimension
    from .. import unlim
    for rp, q in (('core/_files.py', 'PseudoNetCDFFile.stack'), ('core/_functions.py', 'stack_files')):
        fn = ctx.src.mod(rp).func(q)
        where = 'src/PseudoNetCDF/%s %s' % (rp, q)
        sites = unlim.create_dim_sites(fn)
        for call, stmt in sites:
            s = unlim.survives(fn, call, stmt)
            if s is None:
                continue
            how = unlim.flag_propagated(fn, call, stmt)
            if how:
                ctx.ok('R-UNLIM', '%s:%s' % (q, norm(call)[:40]), where, how)
            else:
                ctx.violation(Finding('R-UNLIM', rp, q, stmt, 'dimension %s survives from %s but is re-created without its unlimited flag' % (norm(call.args[0]), s)))
        # copyDimension(<dimension object>, key=K): the flag that is copied is that of the object, so the object must be dimension K itself
        for c in [c for c in walk_expr(fn) if isinstance(c, ast.Call) and isinstance(c.func, ast.Attribute) and c.func.attr == 'copyDimension' and c.args and kw(c, 'key') is not None]:
            src_ = c.args[0]
            if isinstance(src_, ast.Name):
                defs = [s2 for s2 in iter_stmts(fn.body) if isinstance(s2, ast.Assign) and len(s2.targets) == 1 and isinstance(s2.targets[0], ast.Name)
                        and s2.targets[0].id == src_.id and s2.lineno < c.lineno]
                src_ = defs[-1].value if defs else None
            if isinstance(src_, ast.Subscript) and norm(src_.value).endswith('.dimensions'):
                if norm(src_.slice) == norm(kw(c, 'key')):
                    ctx.ok('R-UNLIM', '%s:%s' % (q, norm(c)[:40]), where, 'dimension %s copied from the dimension of that name' % norm(kw(c, 'key')))
                else:
                    ctx.violation(Finding('R-UNLIM', rp, q, api.stmt_of(c), 'dimension %s of the result is copied from the dimension object %s: its unlimited flag is that of another dimension'
                                          % (norm(kw(c, 'key')), norm(src_))), oid='%s:%s' % (q, norm(c)[:40]))
        ncd = sum(1 for c in walk_expr(fn) if isinstance(c, ast.Call) and isinstance(c.func, ast.Attribute) and c.func.attr in ('copyDimension', 'addDimensions'))
        if ncd or sites:
            ctx.ok('R-UNLIM', '%s: dimensions' % q, where, '%d copyDimension/addDimensions calls (flag kept by the verified primitive), %d raw createDimension' % (ncd, len(sites)))
        else:
            raise AnalysisError('construct not understood: dimension handling of %s' % q)
    check_copydimension(ctx)
    n = nsd = 0
    for rp, q in (('core/_files.py', 'PseudoNetCDFFile.open_mfdataset'), ('_getreader.py', 'pncmfopen')):
        n += check_forelse(ctx, rp, q)
        check_delegate(ctx, rp, q)
        nsd += check_stack_default(ctx, rp, q)
    for rp, q in (('core/_files.py', 'PseudoNetCDFFile.stack'), ('core/_functions.py', 'stack_files')):
        check_forelse(ctx, rp, q)
    # a prohibition (no for/else whose loop cannot break): it needs no instance - a helper without any for/else satisfies it
    ctx.count('for/else loops in the multi-file helpers', n)
    ctx.floor('default stack dimension searches', nsd, 1)
    check_stack_imports(ctx)
    check_stack_time_units(ctx)
    check_stack_signature(ctx)
    # ---- R-PASSMASK: variables the string forms pass through keep their mask
    from .. import lints as _lp
    ctx.rule('R-PASSMASK', 'variables that an operation passes through unchanged keep their mask: the converter copy does not fill an in-memory masked target')
    _lp.converter_pass_through(ctx, 'R-PASSMASK', [('core/_functions.py', 'stack_files')])
