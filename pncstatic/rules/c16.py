"""C16 - value-to-index lookup.

R-NOEFFECT  no discarded pure computation in the lookup functions (a reversed
            array that is computed and thrown away in the direction branch).
R-DIRPAIR   in the descending branch the abscissa arrays handed to np.interp are
            reversed together with the index vector (same set of names rebound).
R-API       the lookup uses only numpy names that exist in the installed numpy.
R-QMUT      the lookup does not edit the coordinate (shared with C05).
R-EXACT     the 'exact' mask is computed by an exact-membership primitive.
R-TZDROP    datetime front-end: tzinfo is dropped only after astimezone().
"""
import ast

from ..engine import AnalysisError, dotted, iter_stmts, norm, walk_expr, parent_chain, kw, const_str
from ..prov import Prov, is_input
from ..report import Finding
from .. import api
from .c05 import _qmut_scan, QMUT_KINDS

LEVEL_TEXT = (
    "Static lints over val2idx/time2idx/date2num/time2t (ast + provenance): no discarded side-effect-free "
    "array computation, direction branch rebinds every interp abscissa together with the index vector, all "
    "numpy names resolve in the installed numpy, the lookup never writes the coordinate storage, the exact "
    "mask uses an exact-membership primitive, tz-aware datetimes are converted before tzinfo is dropped. "
    "Nearest/containing-cell correctness at every edge is numerical and is not decided.")
RP = 'core/_files.py'
FUNCS = ['val2idx', 'time2idx', 'time2t', 'date2num']


def pure_discarded(fn, prov_names):
    """expression statements whose value is a side-effect-free computation on a local ndarray"""
    out = []
    for st in iter_stmts(fn.body):
        if not isinstance(st, ast.Expr):
            continue
        v = st.value
        if isinstance(v, ast.Constant):
            continue   # docstring / ellipsis
        if isinstance(v, (ast.Call, ast.Await, ast.Yield, ast.YieldFrom)):
            continue
        names = [n for n in walk_expr(v) if isinstance(n, ast.Name)]
        if any(isinstance(n, ast.Call) for n in walk_expr(v)):
            continue
        # subscripts of lazy X.variables[...] dictionaries trigger loading: not pure
        if any(isinstance(n, ast.Attribute) and n.attr in ('variables', 'dimensions') for n in walk_expr(v)):
            continue
        if isinstance(v, (ast.Subscript, ast.BinOp, ast.UnaryOp, ast.Compare, ast.Attribute, ast.Name)):
            base = v
            while isinstance(base, (ast.Subscript, ast.Attribute)):
                base = base.value
            if isinstance(base, ast.Name) and base.id in prov_names:
                out.append(st)
            elif isinstance(v, (ast.BinOp, ast.Compare, ast.UnaryOp)) and names and all(n.id in prov_names for n in names):
                out.append(st)
    return out


def local_arrays(fn):
    """names assigned in fn from expressions (locals) - the candidates for 'plain ndarray local'"""
    out = set()
    for st in iter_stmts(fn.body):
        if isinstance(st, ast.Assign):
            for t in st.targets:
                for n in ast.walk(t):
                    if isinstance(n, ast.Name):
                        out.add(n.id)
    return out


def run(ctx):
    ctx.rule('R-NOEFFECT', 'no discarded side-effect-free array computation in the lookup functions')
    ctx.rule('R-DIRPAIR', 'descending branch reverses every np.interp abscissa together with the index vector')
    ctx.rule('R-API', 'numpy names used by the lookup exist in the installed numpy; no removed ndarray method')
    ctx.rule('R-QMUT', 'the lookup never writes receiver storage')
    ctx.rule('R-EXACT', "method='exact' masks with an exact-membership primitive")
    ctx.rule('R-TZDROP', 'tzinfo is removed only after conversion with astimezone')
    mod = ctx.src.mod(RP)
    for name in FUNCS:
        q = 'PseudoNetCDFFile.' + name
        fn = mod.func(q)
        where = 'src/PseudoNetCDF/%s %s' % (RP, q)
        # R-NOEFFECT
        disc = pure_discarded(fn, local_arrays(fn))
        for st in disc:
            ctx.violation(Finding('R-NOEFFECT', RP, q, st,
                                  'the value of this side-effect-free expression is discarded; its sibling statements '
                                  'bind their result - the author meant to keep it'))
        if not disc:
            ctx.ok('R-NOEFFECT', q, where, 'no discarded pure expression statement')
        # R-API
        miss = api.missing_numpy_names(mod, fn)
        rem = api.removed_method_calls(mod, fn)
        for n, d in miss:
            ctx.violation(Finding('R-API', RP, q, api.stmt_of(n), '%s does not exist in the installed numpy: this path '
                                  'raises AttributeError for every input' % d))
        for n, m in rem:
            ctx.violation(Finding('R-API', RP, q, api.stmt_of(n), 'ndarray.%s was removed from numpy' % m))
        if not miss and not rem:
            ctx.ok('R-API', q, where, 'all numpy names resolve')
        # R-QMUT
        p, events, nsink, bad = _qmut_scan(ctx, mod, q, fn, 'self', [], [], False)
        for ev in bad:
            ctx.violation(Finding('R-QMUT', RP, q, ev.stmt,
                                  'the lookup writes %s of self (%s%s): a second lookup answers for a different coordinate'
                                  % ({'VIEW': 'a view of the storage', 'SAME': 'an object', 'VARS': 'the variable table',
                                      'DIMS': 'the dimension table', 'FILE': 'an attribute', 'ATTR': 'an attribute array'}[ev.base[0]],
                                     ev.kind, (' ' + ev.extra) if ev.extra else '')))
        if not bad:
            ctx.ok('R-QMUT', q, where, '%d write sinks, none must-aliases the receiver' % nsink)
    # ---- R-DIRPAIR / R-EXACT in val2idx
    fn = mod.func('PseudoNetCDFFile.val2idx')
    q = 'PseudoNetCDFFile.val2idx'
    where = 'src/PseudoNetCDF/%s %s' % (RP, q)
    interp_calls = [c for c in walk_expr(fn) if isinstance(c, ast.Call) and dotted(c.func) in ('np.interp', 'numpy.interp')]
    if not interp_calls:
        raise AnalysisError('construct not understood: val2idx no longer calls np.interp')
    # path-wise with temporaries substituted (paths.py): on every path on which the coordinate was found descending, the abscissa
    # and the ordinate that reach np.interp are both reversals; on the other paths neither is
    from .. import paths as _paths
    seeds = [api.stmt_of(c) for c in interp_calls]
    rel = _paths.relevance(fn.body, seeds)

    def is_reversal(e):
        if isinstance(e, ast.Call) and isinstance(e.func, ast.Attribute) and e.func.attr == 'copy':
            e = e.func.value
        if isinstance(e, ast.Subscript) and norm(e.slice) == '::-1':
            return True
        if isinstance(e, ast.Call) and (dotted(e.func) or '').split('.')[-1] in ('flip', 'flipud') and e.args:
            return True
        return False
    ndesc = 0
    half = odd = None
    for pth in _paths.enumerate_paths(fn.body, limit=60000, relevant=rel):
        if pth.exit[0] == 'raise':
            continue
        res = _paths.expand(pth)
        if not res.feasible:
            continue
        for k_, (st, new) in enumerate(res.stmts):
            calls = [c for c in walk_expr(new) if isinstance(c, ast.Call) and dotted(c.func) in ('np.interp', 'numpy.interp')] if not isinstance(new, (ast.For, ast.While, ast.If)) else []
            for c in calls:
                if len(c.args) < 3:
                    raise AnalysisError('construct not understood: np.interp arguments in val2idx')
                desc = None
                for e_, x, p_ in res.conds[:res.ncond_at[k_]]:
                    t = norm(x)
                    if '< 0' in t and '.all()' in t and 'diff' in t:
                        desc = p_
                if desc is not True:
                    continue
                ndesc += 1
                rx, rf = is_reversal(c.args[1]), is_reversal(c.args[2])
                if rx != rf:
                    half = (st, norm(c.args[1])[:40] if not rx else norm(c.args[2])[:40], 'abscissa' if not rx else 'index vector')
                elif not rx:
                    odd = st
    if ndesc == 0:
        raise AnalysisError('construct not understood: no descending-coordinate branch in val2idx')
    if half:
        ctx.violation(Finding('R-DIRPAIR', RP, q, half[0],
                              'on the descending path the %s handed to np.interp (%s) is not reversed although the other argument is: np.interp needs an increasing '
                              'abscissa paired with its own indices' % (half[2], half[1])))
    elif odd:
        ctx.violation(Finding('R-DIRPAIR', RP, q, odd,
                              'descending branch does not reverse the abscissa and index vector that np.interp reads: np.interp needs an increasing abscissa'))
    else:
        ctx.ok('R-DIRPAIR', 'val2idx descending branch', where, 'abscissa and index vector both reversed on the %d descending paths that reach np.interp' % ndesc)
    # R-EXACT
    ex = None
    for st in iter_stmts(fn.body):
        if isinstance(st, ast.If) and "method == 'exact'" in norm(st.test):
            ex = st
    if ex is None:
        raise AnalysisError("construct not understood: no method == 'exact' branch in val2idx")
    calls = [dotted(c.func) for c in walk_expr(ex) if isinstance(c, ast.Call) and dotted(c.func)]
    tol = [c for c in calls if c.split('.')[-1] in ('isclose', 'allclose', 'around', 'round')]
    exact = [c for c in calls if c.split('.')[-1] in ('isin', 'in1d')] or \
        [n for n in walk_expr(ex) if isinstance(n, ast.Compare) and any(isinstance(o, (ast.Eq, ast.NotEq)) for o in n.ops)
         and n is not ex.test]
    if tol or not exact:
        ctx.violation(Finding('R-EXACT', RP, q, ex.body[0],
                              "method='exact' must mask every value that is not equal to a coordinate; the mask is "
                              'computed with %s' % (tol or 'no exact-membership primitive')))
    elif any(isinstance(c, ast.Call) and (dotted(c.func) or '').split('.')[-1] in ('isin', 'in1d') and
             any(k.arg == 'assume_unique' and not (isinstance(k.value, ast.Constant) and k.value.value is False) for k in c.keywords) for c in walk_expr(ex)):
        ctx.violation(Finding('R-EXACT', RP, q, ex.body[0], 'the membership test is called with assume_unique: that also applies to the requested values, which may repeat; a value that is not a '
                              'coordinate value and occurs more than once is then reported as a member for all but one of its occurrences'))
    else:
        ctx.ok('R-EXACT', 'val2idx exact branch', where, 'mask from exact membership (%s)' % (exact[0] if isinstance(exact[0], str) else '=='))
    # R-MASKKEEP: the mask put on by method='exact' (and clean='mask') must survive to the returned index
    from .. import lints
    # ---- R-RESUNIT: time2t converts to a numpy unit no coarser than the finest non-zero field of the times
    from .. import lints as _l16
    ctx.rule('R-RESUNIT', 'time2t: the datetime64 unit chosen for a resolution is not coarser than that resolution (seconds are not truncated to minutes)')
    t2 = mod.func('PseudoNetCDFFile.time2t')
    r_ = _l16.resolution_table(t2)
    w16 = 'src/PseudoNetCDF/%s PseudoNetCDFFile.time2t' % RP
    if r_[0] == 'ok':
        ctx.ok('R-RESUNIT', 'resolution table', w16, '%d resolutions map to a unit at least as fine' % r_[1])
    elif r_[0] == 'wrong':
        ctx.violation(Finding('R-RESUNIT', RP, 'PseudoNetCDFFile.time2t', r_[1], "times whose finest non-zero field is '%s' are converted to datetime64[%s] (needed: [%s] or finer): they are truncated before the "
                              'interpolation, so queries and file times a few %ss apart get the same abscissa' % (r_[2], r_[3], r_[4], r_[2])))
    else:
        ctx.undec('R-RESUNIT', 'resolution table', w16, r_[1])
    # ---- R-EDGEPAIR: both out-of-range tests look at the same (edge) array; edges keep the order of the coordinate
    ctx.rule('R-EDGEPAIR', 'val2idx: the left and right out-of-range tests use the two ends of the same edge array; edges are built without sorting')
    v2 = mod.func('PseudoNetCDFFile.val2idx')
    w17 = 'src/PseudoNetCDF/%s PseudoNetCDFFile.val2idx' % RP
    ends = {}
    for st in iter_stmts(v2.body):
        if isinstance(st, ast.Assign) and isinstance(st.targets[0], ast.Name) and st.targets[0].id in ('isleft', 'isright') and isinstance(st.value, ast.Compare):
            sub = [n for n in ast.walk(st.value) if isinstance(n, ast.Subscript) and isinstance(n.value, ast.Name)]
            if sub:
                ends[st.targets[0].id] = (sub[0].value.id, norm(sub[0].slice), st)
    if len(ends) == 2:
        if ends['isleft'][0] == ends['isright'][0] and (ends['isleft'][1], ends['isright'][1]) == ('0', '-1'):
            ctx.ok('R-EDGEPAIR', 'range tests', w17, 'val < %s[0] | val > %s[-1]' % (ends['isleft'][0], ends['isright'][0]))
        else:
            ctx.violation(Finding('R-EDGEPAIR', RP, 'PseudoNetCDFFile.val2idx', ends['isright'][2], 'the left limit is %s[%s] but the right limit is %s[%s]: values between the last centre and the last edge '
                                  'are reported (or rejected) as out of range although they lie inside the domain' % (ends['isleft'][0], ends['isleft'][1], ends['isright'][0], ends['isright'][1])))
    else:
        # limits held in names: where were they read?  The direction test reverses a descending edge array in place (dimevals =
        # dimevals[::-1]); limits read before that are the wrong way round for a descending coordinate
        lim = {}
        for st in iter_stmts(v2.body):
            if isinstance(st, ast.Assign) and isinstance(st.targets[0], ast.Name) and st.targets[0].id in ('isleft', 'isright') and isinstance(st.value, ast.Compare) \
                    and isinstance(st.value.comparators[0], ast.Name):
                lim[st.targets[0].id] = (st.value.comparators[0].id, st)
        revs = [st for st in iter_stmts(v2.body) if isinstance(st, ast.Assign) and isinstance(st.value, ast.Subscript) and isinstance(st.value.slice, ast.Slice)
                and st.value.slice.step is not None and norm(st.value.slice.step) == '-1' and norm(st.targets[0]) == norm(st.value.value)]
        early = None
        for side, (nm_, st_) in lim.items():
            for d_ in iter_stmts(v2.body):
                if isinstance(d_, ast.Assign) and d_.lineno < st_.lineno:
                    tg = d_.targets[0]
                    names_ = [tg.id] if isinstance(tg, ast.Name) else [e.id for e in tg.elts if isinstance(e, ast.Name)] if isinstance(tg, ast.Tuple) else []
                    if nm_ in names_ and revs and d_.lineno < min(r_.lineno for r_ in revs) and any(isinstance(x, ast.Subscript) for x in ast.walk(d_.value)):
                        early = (nm_, d_)
        if len(lim) == 2 and early:
            ctx.violation(Finding('R-EDGEPAIR', RP, 'PseudoNetCDFFile.val2idx', early[1], 'the out-of-range limit %s is read before a descending edge array is reversed (%s): for a descending coordinate the '
                                  'left and right limits are swapped and every value inside the domain is reported out of range' % (early[0], norm(revs[0])[:40])))
        else:
            ctx.undec('R-EDGEPAIR', 'range tests', w17, 'isleft/isright not in the recognised form')
    srt = [c for c in ast.walk(v2) if isinstance(c, ast.Call) and dotted(c.func) in ('np.unique', 'sorted', 'set', 'np.union1d') and c.args
           and any(isinstance(n, ast.Name) and n.id in ('dimbv', 'dimvals', 'dimevals', 'dimv') for n in ast.walk(c.args[0]))]
    if srt:
        ctx.violation(Finding('R-EDGEPAIR', RP, 'PseudoNetCDFFile.val2idx', api.stmt_of(srt[0]), '%s sorts (and merges) the coordinate/edge values: a descending coordinate is silently turned ascending before the '
                              'direction test, and edges equal only up to round-off are counted twice' % norm(srt[0])[:40]), oid='sorted edges')
    else:
        ctx.ok('R-EDGEPAIR', 'edge order', w17, 'no sorting/merging of coordinate or edge values')
    # ---- R-BOUNDSBREAK: a bounds variable that was found is final - the loop over candidate names is left, so its else clause (the
    # approximation from the centres) cannot replace the edges that were read
    ctx.rule('R-BOUNDSBREAK', 'val2idx: every path of the candidate loop that takes edges from a bounds variable leaves the loop (the else clause approximates edges only when none was found)')
    bl = [st for st in iter_stmts(v2.body) if isinstance(st, ast.For) and st.orelse and any(isinstance(x, ast.Break) for x in ast.walk(st))
          and any(isinstance(s2, ast.Assign) and norm(s2.targets[0]) == 'dimevals' for s2 in iter_stmts(st.body))]
    if not bl:
        ctx.undec('R-BOUNDSBREAK', 'candidate loop', w17, 'loop over the bounds-variable names with an else clause not found')
    else:
        nbp, badp = 0, None
        for pth in _paths.enumerate_paths(bl[0].body, limit=5000):
            stores = [st for st in pth.stmts if isinstance(st, ast.Assign) and norm(st.targets[0]) == 'dimevals']
            if not stores or pth.exit[0] == 'raise':
                continue
            nbp += 1
            if pth.exit[0] != 'break':
                badp = badp or stores[-1]
        overw = any(isinstance(s2, ast.Assign) and norm(s2.targets[0]) == 'dimevals' for o in bl[0].orelse for s2 in ast.walk(o))
        if badp is not None and overw:
            ctx.violation(Finding('R-BOUNDSBREAK', RP, 'PseudoNetCDFFile.val2idx', badp, 'edges are taken from a bounds variable (%s) on a path that does not leave the candidate loop: the loop runs out, its '
                                  'else clause approximates the edges from the centres and replaces the ones that were read' % norm(badp)[:50]))
        elif nbp:
            ctx.ok('R-BOUNDSBREAK', 'candidate loop', w17, '%d edge-taking paths, all end in break' % nbp)
        else:
            ctx.undec('R-BOUNDSBREAK', 'candidate loop', w17, 'no path stores the edges')
    # ---- R-QUERYDTYPE: the requested values keep their own type (an integer coordinate must not truncate a fractional request)
    ctx.rule('R-QUERYDTYPE', "val2idx: the requested values are not converted to the coordinate's dtype")
    par0 = [a.arg for a in v2.args.args][2] if len(v2.args.args) > 2 else 'val'
    conv = [c for c in ast.walk(v2) if isinstance(c, ast.Call) and ((dotted(c.func) or '').split('.')[-1] in ('asarray', 'array', 'asanyarray') and c.args and norm(c.args[0]) == par0
                                                                     or (isinstance(c.func, ast.Attribute) and c.func.attr == 'astype' and norm(c.func.value) == par0))]
    badc = [c for c in conv if any('.dtype' in norm(a) for a in list(c.args[1:] if (dotted(c.func) or '').split('.')[-1] != 'astype' else c.args) + [k.value for k in c.keywords])]
    if badc:
        ctx.violation(Finding('R-QUERYDTYPE', RP, 'PseudoNetCDFFile.val2idx', api.stmt_of(badc[0]), 'the requested values are converted with %s: for an integer coordinate every request loses its fraction '
                              'before the lookup (nearest neighbour, cell and exact membership are decided for the truncated value)' % norm(badc[0])[:60]))
    elif conv:
        ctx.ok('R-QUERYDTYPE', 'val', w17, '%d conversions of %s, none with a dtype taken from the coordinate' % (len(conv), par0))
    else:
        ctx.undec('R-QUERYDTYPE', 'val', w17, 'no array conversion of the request found')
    # ---- R-RANGECHECK: every way out of val2idx with a result passes the out-of-range block
    ctx.rule('R-RANGECHECK', "val2idx: no return before the out-of-range test (bounds='warn' / 'error' apply to every method)")
    rb = [st for st in iter_stmts(v2.body) if isinstance(st, ast.If) and 'bounds' in norm(st.test) and "'ignore'" in norm(st.test)]
    if not rb:
        ctx.undec('R-RANGECHECK', 'range block', w17, "the `bounds != 'ignore'` block was not found")
    else:
        order = list(iter_stmts(v2.body))
        pos = order.index(rb[-1])
        early = [st for st in order[:pos] if isinstance(st, ast.Return)]
        if early:
            g_ = [p_ for p_ in parent_chain(early[0]) if isinstance(p_, ast.If)]
            ctx.violation(Finding('R-RANGECHECK', RP, 'PseudoNetCDFFile.val2idx', early[0], 'val2idx returns here%s before the out-of-range test: for those calls bounds=\'error\' no longer raises and bounds=\'warn\' '
                                  'no longer warns for values outside the domain' % ((' (when %s)' % norm(g_[0].test)[:40]) if g_ else '')))
        else:
            ctx.ok('R-RANGECHECK', 'range block', w17, 'no return among the %d statements before the out-of-range test' % pos)
    # ---- R-EDGECLAMP: method='bounds': the interpolated cell index is clamped to the last cell *after* the interpolation
    ctx.rule('R-EDGECLAMP', "val2idx(method='bounds'): a value on the closing edge (index n on the edge axis) is clamped to cell n-1 after np.interp")
    nb, unclamped, clamped = 0, None, None
    for pth in _paths.enumerate_paths(v2.body, limit=60000, relevant=rel):
        if pth.exit[0] == 'raise' or pth.polarity("method == 'bounds'") is not True:
            continue
        res = _paths.expand(pth)
        if not res.feasible:
            continue
        pos = [k_ for k_, (st, new) in enumerate(res.stmts) if not isinstance(st, (ast.For, ast.While, ast.If)) and
               any(isinstance(c, ast.Call) and dotted(c.func) == 'np.interp' for c in walk_expr(st))]
        if not pos:
            continue
        nb += 1
        clamp = [st for st, new in res.stmts[pos[-1]:] if not isinstance(st, (ast.For, ast.While, ast.If)) and
                 any(isinstance(c, ast.Call) and dotted(c.func) in ('np.minimum', 'np.clip', 'np.fmin') and 'size - 1' in norm(c) and 'np.interp(' in norm(c) for c in walk_expr(new))]
        # the closing edge can only be produced when np.interp is not told to put something else right of the last edge
        open_right = res.polarity('right is None')
        if clamp:
            clamped = clamp[0]
        elif open_right is not False:
            unclamped = res.stmts[pos[-1]][0]
    if nb == 0:
        ctx.undec('R-EDGECLAMP', 'bounds branch', w17, "no path for method == 'bounds' reaches np.interp")
    elif unclamped is None and clamped is not None:
        ctx.ok('R-EDGECLAMP', 'bounds branch', w17, norm(clamped)[:70])
    else:
        ctx.violation(Finding('R-EDGECLAMP', RP, 'PseudoNetCDFFile.val2idx', unclamped if unclamped is not None else v2.body[-1], 'the cell index from np.interp over the edges is not clamped to size - 1 afterwards: a value exactly on the '
                              'closing edge gets index n, a cell that does not exist (np.interp\'s right= only covers values beyond the last edge)'))
    # the clamp must let a NaN index through (left=np.nan / a missing query is reported as missing, clean='mask' masks it): np.fmin and
    # np.nanmin-style functions ignore NaN and turn it into the last cell
    for c in [c for c in ast.walk(v2) if isinstance(c, ast.Call) and (dotted(c.func) or '') in ('np.fmin', 'np.nanmin', 'np.fmax') and 'size - 1' in norm(c)]:
        ctx.violation(Finding('R-EDGECLAMP', RP, 'PseudoNetCDFFile.val2idx', api.stmt_of(c), '%s ignores NaN: a fractional index that is NaN (query below the domain with left=np.nan, or a missing query '
                              'value) becomes size - 1, so the query is reported as lying in the last cell instead of being masked' % dotted(c.func)))
    # ---- R-RESBOTH: the resolution at which times are compared is the finer one of the queries and of the file's own times
    ctx.rule('R-RESBOTH', 'time2t: the resolution loop examines the fields of the queries and of the file\'s own times (either one can stop it)')
    own = set(st.targets[0].id for st in iter_stmts(t2.body) if isinstance(st, ast.Assign) and isinstance(st.targets[0], ast.Name) and 'getTimes' in norm(st.value))
    qpar = t2.args.args[1].arg if len(t2.args.args) > 1 else 'time'
    resloops = [st for st in iter_stmts(t2.body) if isinstance(st, ast.For) and any(isinstance(x, ast.Break) for x in iter_stmts(st.body))]
    if not resloops or not own:
        ctx.undec('R-RESBOTH', 'resolution loop', w16, 'loop or the file times not found')
    else:
        lp = resloops[0]
        probed = set()
        for comp in [x for st in iter_stmts(lp.body) for x in walk_expr(st) if isinstance(x, (ast.ListComp, ast.GeneratorExp))]:
            if 'getattr' in norm(comp.elt):
                probed |= set(n_.id for n_ in ast.walk(comp.generators[0].iter) if isinstance(n_, ast.Name))
        if (probed & own) and (qpar in probed or any(qpar in norm(st.value) for st in iter_stmts(t2.body) if isinstance(st, ast.Assign) and isinstance(st.targets[0], ast.Name)
                                                       and st.targets[0].id in probed)):
            ctx.ok('R-RESBOTH', 'resolution loop', w16, 'fields of %s examined' % sorted(probed))
        else:
            ctx.violation(Finding('R-RESBOTH', RP, 'PseudoNetCDFFile.time2t', lp, 'the resolution is decided from %s only: times of the file (or edges) finer than every query are truncated to the coarser unit before '
                                  'the interpolation, and nearest / bounds lookups return the neighbouring step' % (sorted(probed) or 'nothing')))
    # ---- the out-of-range action is taken when ANY requested value is outside (arrays mix inside and outside values)
    for st in iter_stmts(v2.body):
        if isinstance(st, ast.If) and isinstance(st.test, ast.Call) and isinstance(st.test.func, ast.Attribute) and st.test.func.attr in ('all', 'any') \
                and any(isinstance(x, (ast.Raise,)) or (isinstance(x, ast.Call) and dotted(x.func) in ('warn', 'warnings.warn')) for b_ in st.body for x in ast.walk(b_)):
            if st.test.func.attr == 'all':
                ctx.violation(Finding('R-RANGECHECK', RP, 'PseudoNetCDFFile.val2idx', st, 'the out-of-range warning / error needs every requested value to be outside (%s): an array that mixes values inside and '
                                      'outside the domain is silently clamped to the end cells' % norm(st.test)))
            else:
                ctx.ok('R-RANGECHECK', 'any-out', w17, norm(st.test))
    # ---- the fractional index is converted to a cell number as it is: no tolerance is added before the truncation
    ctx.rule('R-NOTOL', 'val2idx: the cell number is the truncated / rounded fractional index itself (no epsilon added: a value just inside a cell belongs to that cell)')
    for st in iter_stmts(v2.body):
        if isinstance(st, ast.Assign) and isinstance(st.targets[0], ast.Name) and st.targets[0].id == 'outidx':
            eps = [b for b in ast.walk(st.value) if isinstance(b, ast.BinOp) and isinstance(b.op, (ast.Add, ast.Sub)) and isinstance(b.right, ast.Constant) and isinstance(b.right.value, float)
                   and 0 < abs(b.right.value) < 0.5]
            if eps:
                ctx.violation(Finding('R-NOTOL', RP, 'PseudoNetCDFFile.val2idx', st, 'a tolerance is added before the truncation (%s): a value inside a cell but within that distance of its interior edge is reported '
                                      'in the neighbouring cell, which does not contain it' % norm(eps[0])))
            else:
                ctx.ok('R-NOTOL', norm(st)[:40], w17, 'no tolerance')
    # ---- R-BOUNDSKEYS: both conventional names of the bounds variable are always candidates
    ctx.rule('R-BOUNDSKEYS', "val2idx looks for <dim>_bounds and <dim>_bnds whether or not the coordinate names a bounds variable")
    bk = [st for st in iter_stmts(v2.body) if isinstance(st, ast.Assign) and norm(st.targets[0]) == 'bounds_keys' and isinstance(st.value, ast.List)]
    if not bk:
        ctx.undec('R-BOUNDSKEYS', 'candidates', w17, 'bounds_keys is not a list literal')
    else:
        elts = [norm(e) for e in bk[0].value.elts]
        missing = [k for k in ("dim + '_bounds'", "dim + '_bnds'") if k not in elts]
        if missing:
            ctx.violation(Finding('R-BOUNDSKEYS', RP, 'PseudoNetCDFFile.val2idx', bk[0], 'the candidate list %s does not always contain %s: with a stale or missing bounds attribute an existing bounds variable is '
                                  'not found and the cell edges are approximated from the centres' % (elts, missing)))
        else:
            ctx.ok('R-BOUNDSKEYS', 'candidates', w17, str(elts))
    # ---- R-CALSRC: units and calendar of a time axis are read from the same object
    ctx.rule('R-CALSRC', 'date2num reads the calendar from the variable it reads the units from')
    d2 = mod.func('PseudoNetCDFFile.date2num')
    w18 = 'src/PseudoNetCDF/%s PseudoNetCDFFile.date2num' % RP
    alias = {}
    for st in iter_stmts(d2.body):
        if isinstance(st, ast.Assign) and isinstance(st.targets[0], ast.Name) and isinstance(st.value, ast.Subscript):
            alias[st.targets[0].id] = norm(st.value)
    usrc = csrc = None
    for st in iter_stmts(d2.body):
        if isinstance(st, ast.Assign) and isinstance(st.targets[0], ast.Name):
            for n in ast.walk(st.value):
                if isinstance(n, ast.Attribute) and n.attr == 'units':
                    usrc = alias.get(norm(n.value), norm(n.value))
                if isinstance(n, ast.Call) and dotted(n.func) == 'getattr' and len(n.args) >= 2 and isinstance(n.args[1], ast.Constant) and n.args[1].value == 'calendar':
                    csrc = (alias.get(norm(n.args[0]), norm(n.args[0])), st)
                if isinstance(n, ast.Attribute) and n.attr == 'calendar':
                    csrc = (alias.get(norm(n.value), norm(n.value)), st)
    # the value handed on as calendar= must have been looked up under the attribute name 'calendar'
    wrongkey = None
    for c in ast.walk(d2):
        # date2num(dates, units, calendar) of netCDF4 / cftime: third positional argument or calendar=
        carg = None
        if isinstance(c, ast.Call) and (dotted(c.func) or '').split('.')[-1] == 'date2num':
            carg = kw(c, 'calendar') if kw(c, 'calendar') is not None else (c.args[2] if len(c.args) > 2 else None)
        cnames = [n_.id for n_ in ast.walk(carg) if isinstance(n_, ast.Name)] if carg is not None else []
        for cn in cnames:
            for st in iter_stmts(d2.body):
                if isinstance(st, ast.Assign) and isinstance(st.targets[0], ast.Name) and st.targets[0].id == cn:
                    for n in ast.walk(st.value):
                        if isinstance(n, ast.Call) and dotted(n.func) == 'getattr' and len(n.args) >= 2 and isinstance(n.args[1], ast.Constant) and n.args[1].value != 'calendar':
                            wrongkey = (n.args[1].value, st)
    if wrongkey is not None:
        ctx.violation(Finding('R-CALSRC', RP, 'PseudoNetCDFFile.date2num', wrongkey[1], "the calendar handed to the conversion is looked up under the attribute name %r, which no time variable carries (CF: 'calendar'): "
                              'the default calendar is always used and dates of 365/366-day calendars convert to shifted numbers' % wrongkey[0]))
    elif usrc is None or csrc is None:
        ctx.undec('R-CALSRC', 'date2num', w18, 'units / calendar reads not found')
    elif usrc == csrc[0]:
        ctx.ok('R-CALSRC', 'date2num', w18, 'both from %s' % usrc)
    else:
        ctx.violation(Finding('R-CALSRC', RP, 'PseudoNetCDFFile.date2num', csrc[1], 'the units are read from %s but the calendar from %s: a non-standard calendar declared on the time variable is ignored, so datetimes '
                              'convert to numbers of another calendar and the lookup returns shifted cells' % (usrc, csrc[0])))
    ctx.rule('R-MASKKEEP', "no mask-dropping conversion between the masked fractional index and the returned index")
    masked_at = None
    for st in iter_stmts(fn.body):
        if isinstance(st, ast.Assign) and 'np.ma.masked_where' in norm(st.value) and norm(st.targets[0]) == 'fidx':
            masked_at = st
    if masked_at is None:
        raise AnalysisError("anchor vanished: masked_where of the exact method")
    badm = []
    for st in iter_stmts(fn.body):
        if st.lineno > masked_at.lineno and isinstance(st, ast.Assign) and isinstance(st.targets[0], ast.Name) \
                and st.targets[0].id in ('fidx', 'outfidx', 'outidx'):
            d = lints.drops_mask(st.value)
            if d is not None:
                badm.append((st, d))
    if badm:
        for st, d in badm:
            ctx.violation(Finding('R-MASKKEEP', RP, q, st, "%s strips the mask that method='exact' put on values that are not coordinates: they come back as ordinary indices" % norm(d)[:40]))
    else:
        ctx.ok('R-MASKKEEP', 'val2idx index path', where, 'fidx -> outfidx -> outidx without a mask-dropping conversion')
    # R-PARAMDEAD: a parameter that is resolved to a default and then ignored
    ctx.rule('R-PARAMDEAD', 'a resolved optional parameter is used afterwards (not silently replaced by another default)')
    for name in FUNCS:
        f6 = mod.func('PseudoNetCDFFile.' + name)
        dead = lints.param_dead_stores(f6)
        w6 = 'src/PseudoNetCDF/%s PseudoNetCDFFile.%s' % (RP, name)
        if dead:
            for st in dead:
                ctx.violation(Finding('R-PARAMDEAD', RP, 'PseudoNetCDFFile.' + name, st, 'parameter %s is resolved here but never read afterwards: the call below uses a '
                                      'different (default) value' % norm(st.targets[0])))
        else:
            ctx.ok('R-PARAMDEAD', name, w6, 'no dead re-assignment of a parameter')
    # R-TIMEDIR: time2t hands np.interp increasing abscissae also for a descending time axis
    ctx.rule('R-TIMEDIR', 'time2t: the abscissa and the index vector of every np.interp call are chosen under a test of the direction of the time axis (reversed together when it descends)')
    t2 = mod.func('PseudoNetCDFFile.time2t')
    wt2 = 'src/PseudoNetCDF/%s PseudoNetCDFFile.time2t' % RP

    def _direction_test(e):
        for x in ast.walk(e):
            if isinstance(x, ast.Compare) and len(x.ops) == 1 and isinstance(x.ops[0], (ast.Gt, ast.Lt, ast.GtE, ast.LtE)):
                a, b = x.left, x.comparators[0]
                if isinstance(a, ast.Subscript) and isinstance(b, ast.Subscript) and norm(a.value) == norm(b.value):
                    ia, ib = norm(a.slice), norm(b.slice)
                    if set((ia, ib)) == set(('0', '-1')):
                        return True
                if any(isinstance(y, ast.Call) and (dotted(y.func) or '').split('.')[-1] == 'diff' for y in ast.walk(x)):
                    return True
        return False

    def _reversed(e):
        return isinstance(e, ast.Subscript) and isinstance(e.slice, ast.Slice) and e.slice.step is not None and norm(e.slice.step) == '-1' and e.slice.lower is None and e.slice.upper is None
    # names bound to a reversed array under a direction test: name -> statement
    guarded = {}
    for st in iter_stmts(t2.body):
        if isinstance(st, ast.If) and _direction_test(st.test):
            for s2 in st.body + st.orelse:
                if isinstance(s2, ast.Assign) and len(s2.targets) == 1:
                    tg, val = s2.targets[0], s2.value
                    pairs_ = list(zip(tg.elts, val.elts)) if isinstance(tg, (ast.Tuple, ast.List)) and isinstance(val, (ast.Tuple, ast.List)) and len(tg.elts) == len(val.elts) else [(tg, val)]
                    for t_, v_ in pairs_:
                        if isinstance(t_, ast.Name):
                            guarded.setdefault(t_.id, []).append((v_, s2 in st.body))
    icalls = [c for c in walk_expr(t2) if isinstance(c, ast.Call) and dotted(c.func) in ('np.interp', 'numpy.interp')]
    if not icalls:
        ctx.undec('R-TIMEDIR', 'np.interp', wt2, 'time2t no longer calls np.interp')
    for c in icalls:
        args = list(c.args)
        xp_a = args[1] if len(args) > 1 else kw(c, 'xp')
        fp_a = args[2] if len(args) > 2 else kw(c, 'fp')
        oid = 'interp@%s' % norm(c)[:40]
        good = False
        if isinstance(xp_a, ast.Name) and isinstance(fp_a, ast.Name) and xp_a.id in guarded and fp_a.id in guarded:
            revx = [b for v, b in guarded[xp_a.id] if _reversed(v)]
            revf = [b for v, b in guarded[fp_a.id] if _reversed(v)]
            plainx = [b for v, b in guarded[xp_a.id] if not _reversed(v)]
            # reversed together in one branch, taken as they are in the other
            good = bool(revx) and revx == revf and bool(plainx) and all(b != revx[0] for b in plainx)
        if good:
            ctx.ok('R-TIMEDIR', oid, wt2, '%s and %s are reversed together when the axis descends' % (xp_a.id, fp_a.id))
        else:
            ctx.violation(Finding('R-TIMEDIR', RP, 'PseudoNetCDFFile.time2t', api.stmt_of(c), 'np.interp gets the abscissae %s as they are: for a descending time axis (which val2idx and time2idx handle) they decrease, '
                                  'np.interp then returns garbage without an error ([2, 1, 0] hours looked up at 0, 1, 2 h gives [0, 2, 2])' % (norm(xp_a) if xp_a is not None else '?')), oid=oid)
    # R-STEPINT: a file attribute reaches timedelta() only through int() / float()
    ctx.rule('R-STEPINT', 'getTimes: a value computed from a file attribute (TSTEP read from netCDF is a numpy scalar) is converted with int() / float() before timedelta() gets it')
    gt = mod.func('PseudoNetCDFFile.getTimes')
    wgt = 'src/PseudoNetCDF/%s PseudoNetCDFFile.getTimes' % RP

    def _attr_read(e):
        for x in ast.walk(e):
            if isinstance(x, ast.Attribute) and isinstance(x.value, ast.Name) and x.value.id == 'self' and x.attr.isupper() and isinstance(x.ctx, ast.Load):
                return True
            if isinstance(x, ast.Call) and dotted(x.func) == 'getattr' and len(x.args) >= 2 and isinstance(x.args[0], ast.Name) and x.args[0].id == 'self' \
                    and (const_str(x.args[1]) or '').isupper():
                return True
        return False

    def _bare_names(e, names):
        """names of `names` that occur in e outside an int() / float() / '%d' % conversion"""
        out = []

        def walk(x, conv):
            if isinstance(x, ast.Call) and dotted(x.func) in ('int', 'float', 'round') and dotted(x.func) != 'round':
                conv = True
            if isinstance(x, ast.BinOp) and isinstance(x.op, ast.Mod) and isinstance(x.left, ast.Constant) and isinstance(x.left.value, str):
                conv = True
            if isinstance(x, ast.Name) and x.id in names and not conv:
                out.append(x.id)
            if not conv and _attr_read(x) and isinstance(x, (ast.Attribute, ast.Call)) and not any(isinstance(y, ast.Name) and y.id in names for y in ast.walk(x)):
                if isinstance(x, ast.Attribute) and isinstance(x.value, ast.Name) and x.value.id == 'self' and x.attr.isupper():
                    out.append('self.' + x.attr)
            for ch in ast.iter_child_nodes(x):
                walk(ch, conv)
        walk(e, False)
        return out
    tainted = set()
    for _ in range(5):
        for st in iter_stmts(gt.body):
            if isinstance(st, ast.Assign) and len(st.targets) == 1 and isinstance(st.targets[0], ast.Name):
                v = st.value
                if isinstance(v, ast.Call) and dotted(v.func) in ('int', 'float', 'str', 'len'):
                    continue
                if isinstance(v, ast.BinOp) and isinstance(v.op, ast.Mod) and isinstance(v.left, ast.Constant) and isinstance(v.left.value, str):
                    continue
                if _bare_names(v, tainted) or (_attr_read(v) and not isinstance(v, ast.Call)) or (isinstance(v, ast.Call) and dotted(v.func) == 'getattr' and _attr_read(v)):
                    tainted.add(st.targets[0].id)
    nstep = 0
    for c in walk_expr(gt):
        if isinstance(c, ast.Call) and (dotted(c.func) or '').split('.')[-1] == 'timedelta':
            for k in c.keywords:
                if k.arg is None:
                    continue
                bare = _bare_names(k.value, tainted)
                if not bare:
                    continue
                nstep += 1
                ctx.violation(Finding('R-STEPINT', RP, 'PseudoNetCDFFile.getTimes', api.stmt_of(c), 'timedelta(%s=...) gets a value computed from the file attribute behind %s without int() / float(): an attribute '
                                      'read from a netCDF file is a numpy scalar, which timedelta rejects (TypeError), so getTimes(bounds=True) and every lookup by time bounds fail for IOAPI files on disk' % (k.arg, bare[0])), oid='timedelta@%s' % k.arg)
    if not nstep:
        ctx.ok('R-STEPINT', 'timedelta arguments', wgt, 'no file attribute reaches timedelta() unconverted (%d names derived from attributes)' % len(tainted))
    # R-DOCDEFAULT: "None defaults to <name>" in a docstring is implemented as `if p is None: p = <name>`
    ctx.rule('R-DOCDEFAULT', 'documented default of an optional parameter is the one the code applies')
    for name in FUNCS:
        f7 = mod.func('PseudoNetCDFFile.' + name)
        doc = ast.get_docstring(f7) or ''
        import re as _re
        for m_ in _re.finditer(r'(\w+)\s*:[^\n]*\n\s+[^\n]*None defaults to (\w+)', doc):
            par, dflt = m_.group(1), m_.group(2)
            # path-wise: on every path that found the parameter to be None, what is used afterwards in its place is the documented
            # default (the parameter itself is not read again while it still is None); if / conditional expression / `or` alike
            w7 = 'src/PseudoNetCDF/%s PseudoNetCDFFile.%s' % (RP, name)
            npaths, bad, badst = 0, None, None
            for pth in _paths.enumerate_paths(f7.body, limit=60000, relevant=_paths.relevance(f7.body, [s_ for s_ in iter_stmts(f7.body) if any(isinstance(n, ast.Name) and n.id == par for n in ast.walk(s_)) and not isinstance(s_, (ast.If, ast.For, ast.While, ast.Try, ast.With))])):
                if pth.exit[0] == 'raise':
                    continue
                res = _paths.expand(pth)
                if not res.feasible:
                    continue
                cut = None
                for i_, (e_, x, p_) in enumerate(res.conds):
                    if norm(e_) == '%s is None' % par and p_ is True and cut is None:
                        cut = i_
                if cut is None:
                    continue
                npaths += 1
                later = [(st, new) for k_, (st, new) in enumerate(res.stmts) if res.ncond_at[k_] > cut and not isinstance(st, (ast.If, ast.For, ast.While))]
                # what stands where the statements read the parameter
                repl = [(st, r) for st, new in later for r in _paths.replacements(st, new, par)]
                wrong = [(st, r) for st, r in repl if not (isinstance(r, ast.Name) and r.id == dflt)]
                if wrong:
                    r = wrong[0][1]
                    bad, badst = ('None (the parameter is used as it came)' if isinstance(r, ast.Name) and r.id == par else norm(r)[:40]), wrong[0][0]
                elif not repl:
                    bad, badst = 'nothing (the parameter is not used afterwards)', (later[0][0] if later else f7.body[0])
            if npaths and bad is None:
                ctx.ok('R-DOCDEFAULT', '%s.%s' % (name, par), w7, 'None -> %s as documented (%d paths)' % (dflt, npaths))
            else:
                ctx.violation(Finding('R-DOCDEFAULT', RP, 'PseudoNetCDFFile.' + name, badst if badst is not None else f7.body[0],
                                      'the docstring says %s=None defaults to %s, the code applies %s' % (par, dflt, bad or 'nothing')))
    # R-TZDROP in date2num
    check_tzdrop(ctx, mod, 'PseudoNetCDFFile.date2num')
    ctx.floor('lookup functions', len(FUNCS), 4)
    ctx.assumptions.append('np.interp requires a monotonically increasing abscissa (numpy documentation)')


def check_tzdrop(ctx, mod, q, rule='R-TZDROP'):
    fn = mod.func(q)
    where = 'src/PseudoNetCDF/%s %s' % (mod.relpath, q)
    n = 0
    for c in walk_expr(fn):
        if isinstance(c, ast.Call) and isinstance(c.func, ast.Attribute) and c.func.attr == 'replace':
            k = [x for x in c.keywords if x.arg == 'tzinfo']
            if k and isinstance(k[0].value, ast.Constant) and k[0].value.value is None:
                n += 1
                recv = c.func.value
                if isinstance(recv, ast.Call) and isinstance(recv.func, ast.Attribute) and recv.func.attr == 'astimezone':
                    ctx.ok(rule, '%s:%s' % (q, norm(c)[:50]), where, 'tzinfo dropped after astimezone()')
                else:
                    ctx.violation(Finding(rule, mod.relpath, q, api.stmt_of(c),
                                          'replace(tzinfo=None) on a timezone-aware datetime without astimezone(utc): the '
                                          'instant is shifted by its UTC offset'))
                # the test that decides whether the conversion runs looks at every element (any(...)), not at one sample of the array
                child, p_ = c, getattr(c, '_parent', None)
                while p_ is not None and p_ is not fn:
                    if isinstance(p_, ast.If) and 'tzinfo' in norm(p_.test) and any(child is b or any(child is x for x in ast.walk(b)) for b in p_.body):
                        t_ = p_.test
                        sample = [x for x in ast.walk(t_) if isinstance(x, ast.Subscript) and isinstance(x.slice, ast.Constant) and isinstance(x.slice.value, int)]
                        overall = any(isinstance(x, ast.Call) and dotted(x.func) in ('any', 'np.any') for x in ast.walk(t_))
                        if sample and not overall:
                            ctx.violation(Finding(rule, mod.relpath, q, p_, 'whether the times are converted to UTC is decided from one element (%s): in a list that mixes naive and aware datetimes '
                                                  'whose sampled element is naive, the aware ones keep their wall-clock fields and are off by their UTC offset' % norm(sample[0])[:40]))
                        else:
                            ctx.ok(rule, '%s:gate' % q, where, 'conversion gate covers every element')
                    child, p_ = p_, getattr(p_, '_parent', None)
    return n
