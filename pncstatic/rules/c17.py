"""C17 - interpolation weights and mass-conserving regridding: the structural necessary conditions only.

R-PARTUNITY  getinterpweights: weights = interp1d(xs, identity(xs.size), axis=-1, kind='linear')(nxs); in the non-extrapolating branch
             the weights are clipped at 0 and *then* divided by their sum over the source axis (axis 0 of the (old, new) matrix).
R-CONTRACT   every application of a weights matrix W(old, new) to data contracts the source axis: (W * data[:, None]).sum(0) for 1-D
             slices, (W[None, :, :, None, None] * data[:, :, None]).sum(1) for 5-D blocks - the broadcast axis of the data and the
             summed axis are the same axis of W.
R-NORMSAME   mass-conserving regridding: values = (data[:, None] * F).sum(a) / F.sum(a) with one and the same F and axis, F being the
             product of the input layer thickness and the overlap fractions (a constant field stays constant, the thickness-weighted
             column integral is kept).
R-OVERLAP    sigma2coeff: the overlap fraction stored for (layer, target) is top fraction minus bottom fraction, both clipped to [0, 1].

What is NOT decided: the values of the weights, linear exactness and conservation for every grid (floating-point algebra of matrices
computed by scipy/numpy at run time).
"""
import ast
import re

from ..engine import AnalysisError, dotted, iter_stmts, norm, kw, const_str, parent_chain, walk_expr
from ..report import Finding
from .. import api

LEVEL_TEXT = (
    "Static necessary conditions of the interpolation laws (ast): the weight matrix is built from the identity of the source size, clipped and "
    "then normalised over the source axis; every application contracts the source axis of the weights against the matching data axis; the "
    "mass-conserving form divides by the sum of the very weights it multiplies with; overlap fractions are top minus bottom clipped to the "
    "layer. Breaking any of them breaks partition of unity / constant preservation for ordinary inputs. The numerical laws themselves "
    "(linear exactness, conservation for every grid) are floating-point algebra at run time and are not decided.")

CU = 'coordutil.py'


def _calls(fn, name):
    return [c for c in ast.walk(fn) if isinstance(c, ast.Call) and (dotted(c.func) or '').split('.')[-1] == name]


def run(ctx):
    for r, d in (('R-PARTUNITY', 'weights: identity of the source size, linear, clipped at 0 then normalised over the source axis'),
                 ('R-CONTRACT', 'applications contract the source axis of the weights against the matching data axis'),
                 ('R-NORMSAME', 'mass-conserving form: numerator and normaliser use the same weights and axis'),
                 ('R-OVERLAP', 'sigma2coeff: overlap fraction = clipped top fraction - clipped bottom fraction')):
        ctx.rule(r, d)
    src = ctx.src
    cu = src.mod(CU)
    gw = cu.func('getinterpweights')
    where = 'src/PseudoNetCDF/%s getinterpweights' % CU
    # ---- R-ARGORDER: every call of getinterpweights hands its options to the parameters they are meant for
    ctx.rule('R-ARGORDER', 'calls of getinterpweights: an option passed by position lands on the parameter of the same name (kind, fill_value, extrapolate are not interchangeable)')
    gparams = [a.arg for a in gw.args.args]
    syn = {'interptype': 'kind', 'kind': 'kind', 'fill_value': 'fill_value', 'extrapolate': 'extrapolate'}
    ncall = 0
    for m_ in src.all_modules():
        if m_.relpath.startswith('test/'):
            continue
        for q_, f_ in sorted(m_.functions.items()):
            for c in walk_expr(f_):
                if not (isinstance(c, ast.Call) and (dotted(c.func) or '').split('.')[-1] == 'getinterpweights') or getattr(c, '_fn', f_) is not f_:
                    continue
                ncall += 1
                bad_ = None
                for i, a in enumerate(c.args):
                    if i >= 2 and isinstance(a, ast.Name) and a.id in syn and i < len(gparams) and syn[a.id] != gparams[i]:
                        bad_ = (i, a.id, gparams[i])
                w_ = 'src/PseudoNetCDF/%s %s' % (m_.relpath, q_)
                if bad_:
                    ctx.violation(Finding('R-ARGORDER', m_.relpath, q_, api.stmt_of(c), 'positional argument %d is %s but the parameter at that position is %s (signature: %s): the clip-and-normalise step '
                                          'is switched by a value meant for another option, so weights outside [0, 1] survive and values leave the range of the source column'
                                          % (bad_[0] + 1, bad_[1], bad_[2], ', '.join(gparams))))
                else:
                    ctx.ok('R-ARGORDER', '%s:%s' % (q_, norm(c)[:30]), w_, 'options by keyword or in signature order')
    ctx.floor('calls of getinterpweights', ncall, 3)
    # ---- R-CONVEDGES: once the source edges have been converted to the requested top, the raw attribute is not used any more
    ctx.rule('R-CONVEDGES', 'ioapi interpSigma: after the source edges were converted to the requested top (local re-bound), no later statement reads self.VGLVLS again')
    isf = src.mod('cmaqfiles/_ioapi.py').func('ioapi_base.interpSigma')
    wis = 'src/PseudoNetCDF/cmaqfiles/_ioapi.py ioapi_base.interpSigma'
    stmts_ = list(iter_stmts(isf.body))
    alias = [st for st in stmts_ if isinstance(st, ast.Assign) and isinstance(st.targets[0], ast.Name) and norm(st.value) == 'self.VGLVLS']
    if not alias:
        ctx.undec('R-CONVEDGES', 'edges', wis, 'no local bound to self.VGLVLS')
    else:
        nm_ = alias[0].targets[0].id
        rebind = [st for st in stmts_ if isinstance(st, (ast.Assign, ast.AugAssign)) and st is not alias[0] and any(isinstance(t, ast.Name) and t.id == nm_ for t in (st.targets if isinstance(st, ast.Assign) else [st.target]))]
        late = []
        if rebind:
            k0 = stmts_.index(rebind[0])
            for st in stmts_[k0 + 1:]:
                if isinstance(st, (ast.If, ast.For, ast.While, ast.Try, ast.With, ast.FunctionDef)):
                    continue
                if any(isinstance(x, ast.Attribute) and norm(x) == 'self.VGLVLS' and isinstance(x.ctx, ast.Load) for x in ast.walk(st)):
                    late.append(st)
        if late:
            ctx.violation(Finding('R-CONVEDGES', 'cmaqfiles/_ioapi.py', 'ioapi_base.interpSigma', late[0], '%s reads the raw self.VGLVLS although the edges converted to the requested top are held in %s: with a vgtop '
                                  'other than the file\'s the weights are computed on edges of the wrong system' % (norm(late[0])[:50], nm_)))
        else:
            ctx.ok('R-CONVEDGES', 'edges', wis, 'converted edges held in %s; self.VGLVLS not read afterwards' % nm_)
    # ---- R-LOGPAIR: log and exp of the log-scale interpolation are applied to the same variables
    ctx.rule('R-LOGPAIR', 'interpvars: np.ma.exp is applied under the same per-variable test as np.ma.log')
    ivf = src.mod('core/_functions.py').functions.get('interpvars')
    if ivf is not None:
        def guards(call):
            out = []
            for p_ in parent_chain(call):
                if isinstance(p_, (ast.If, ast.IfExp)) and 'loginterp' in norm(p_.test):
                    out.append(norm(p_.test))
                if p_ is ivf:
                    break
            return sorted(out)
        logs = [c for c in walk_expr(ivf) if isinstance(c, ast.Call) and (dotted(c.func) or '').split('.')[-1] == 'log']
        exps = [c for c in walk_expr(ivf) if isinstance(c, ast.Call) and (dotted(c.func) or '').split('.')[-1] == 'exp']
        wlv = 'src/PseudoNetCDF/core/_functions.py interpvars'
        if not logs or not exps:
            ctx.undec('R-LOGPAIR', 'interpvars', wlv, 'log / exp calls not found')
        else:
            gl, ge = set(tuple(guards(c)) for c in logs), set(tuple(guards(c)) for c in exps)
            if gl == ge:
                ctx.ok('R-LOGPAIR', 'interpvars', wlv, 'both under %s' % sorted(gl))
            else:
                ctx.violation(Finding('R-LOGPAIR', 'core/_functions.py', 'interpvars', api.stmt_of(exps[0]), 'the logarithm is taken under %s but the exponential under %s: variables that were interpolated linearly '
                                      'are exponentiated as well (a constant 2 becomes e**2)' % (sorted(gl), sorted(ge))))
    # ---- R-RESTYPE: interpolated variables keep the type of the source variable
    ctx.rule('R-RESTYPE', 'interpvars creates each result variable with the type of the source variable (no fixed 4-byte type)')
    iv = src.mod('core/_functions.py').functions.get('interpvars')
    wiv = 'src/PseudoNetCDF/core/_functions.py interpvars'
    if iv is None:
        ctx.undec('R-RESTYPE', 'interpvars', wiv, 'function not found')
    else:
        for c in walk_expr(iv):
            if isinstance(c, ast.Call) and isinstance(c.func, ast.Attribute) and c.func.attr == 'createVariable' and len(c.args) >= 2 and getattr(c, '_fn', iv) is iv:
                t_ = c.args[1]
                if isinstance(t_, ast.Constant):
                    ctx.violation(Finding('R-RESTYPE', 'core/_functions.py', 'interpvars', api.stmt_of(c), 'every interpolated variable is created as %r whatever the source was: float64 variables (an epoch '
                                          'time axis, a coordinate) are demoted to 4 bytes and reproduced only to about 7 digits' % t_.value))
                elif 'dtype' in norm(t_) or 'typecode' in norm(t_):
                    ctx.ok('R-RESTYPE', norm(c)[:40], wiv, 'type from %s' % norm(t_))
                else:
                    ctx.undec('R-RESTYPE', norm(c)[:40], wiv, 'type expression %s' % norm(t_))
    # ---- path-wise, temporaries substituted (paths.py): what getinterpweights returns
    #   extrapolate true :  I = interp1d(xs, identity(xs.size), axis=-1, kind='linear', ...)(nxs)
    #   extrapolate false:  C / C.sum(0)  with  C = maximum(0, I)
    from .. import paths as _paths
    params = [a.arg for a in gw.args.args]
    if len(params) < 2 or not _calls(gw, 'interp1d'):
        raise AnalysisError('anchor vanished: interp1d in getinterpweights')

    def interp_parts(e):
        """-> (interp1d call, evaluation argument) when e is interp1d(...)(x)"""
        if isinstance(e, ast.Call) and isinstance(e.func, ast.Call) and (dotted(e.func.func) or '').split('.')[-1] == 'interp1d' and len(e.args) == 1:
            return e.func, e.args[0]
        return None, None

    def keywords_of(c):
        out = {}
        for k in c.keywords:
            if k.arg is not None:
                out[k.arg] = k.value
            elif isinstance(k.value, ast.Call) and dotted(k.value.func) == 'dict':
                for k2 in k.value.keywords:
                    out[k2.arg] = k2.value
            elif isinstance(k.value, ast.Dict):
                for kk, vv in zip(k.value.keys, k.value.values):
                    out[const_str(kk)] = vv
            else:
                out['**'] = k.value
        return out
    seen = {}

    def verdict(oid, ok, node, msg, okmsg):
        if oid in seen and seen[oid][0] is False:
            return
        seen[oid] = (ok, node, msg if not ok else okmsg)
    nclipped = nplain = 0
    for pth in _paths.function_paths(gw):
        if pth.exit[0] != 'return':
            continue
        res = _paths.expand(pth)
        if not res.feasible:
            continue
        rst, rnew = [(st, new) for st, new in res.stmts if isinstance(st, ast.Return)][-1]
        W = rnew.value
        extr = res.polarity('extrapolate')
        if extr is None:
            for t_ in ('extrapolate is False', 'extrapolate == False'):
                if res.polarity(t_) is not None:
                    extr = not res.polarity(t_)
        core = W
        if extr is False:
            nclipped += 1
            # normalise
            if isinstance(W, ast.BinOp) and isinstance(W.op, ast.Div):
                C, den = W.left, W.right
                okden = isinstance(den, ast.Call) and isinstance(den.func, ast.Attribute) and den.func.attr == 'sum' and norm(den.func.value) == norm(C) and \
                    ((den.args and norm(den.args[0]) == '0') or (kw(den, 'axis') is not None and norm(kw(den, 'axis')) == '0'))
                verdict('normalise', okden, rst, 'the weights are divided by %s; partition of unity needs the sum over the source axis, <weights>.sum(0), of the (old, new) matrix' % norm(den)[:60], 'divided by the column sums')
                core = C
            else:
                inner_div = [x for x in ast.walk(W) if isinstance(x, ast.BinOp) and isinstance(x.op, ast.Div) and any(isinstance(y, ast.Call) and isinstance(y.func, ast.Attribute) and y.func.attr == 'sum' for y in ast.walk(x.right))]
                if inner_div:
                    verdict('normalise', False, rst, 'the weights are normalised before they are clipped: after the clip they no longer sum to one', '')
                else:
                    verdict('normalise', False, rst, 'the clipped weights are not re-normalised: they no longer sum to one for targets outside the source range', '')
            # clip
            isclip = isinstance(core, ast.Call) and dotted(core.func) in ('np.maximum', 'np.clip', 'np.fmax') and '0' in [norm(a_) for a_ in core.args]
            verdict('clip', isclip, rst, 'the weights are not clipped at 0 when extrapolation is off: targets outside the source range get negative weights', 'clipped at 0')
            if isclip:
                cand = [a_ for a_ in core.args if interp_parts(a_)[0] is not None]
                core = cand[0] if cand else core
        elif extr is True:
            nplain += 1
        ic, at = interp_parts(core)
        if ic is None:
            inner = [x for x in ast.walk(W) if interp_parts(x)[0] is not None]
            if not inner:
                verdict('evaluated at the targets', False, rst, 'the interpolant is not evaluated at the target coordinates %s' % params[1], '')
                continue
            ic, at = interp_parts(inner[0])
        verdict('evaluated at the targets', norm(at) == params[1], rst, 'the interpolant is not evaluated at the target coordinates %s' % params[1], 'evaluated at %s' % params[1])
        kws = keywords_of(ic)
        ident = ic.args[1] if len(ic.args) > 1 else None
        okid = isinstance(ident, ast.Call) and (dotted(ident.func) or '').split('.')[-1] in ('identity', 'eye') and ident.args
        if okid:
            verdict('identity size', norm(ident.args[0]) in ('%s.size' % params[0], 'len(%s)' % params[0], '%s.shape[0]' % params[0]), rst,
                    'the identity matrix has size %s, not the number of source coordinates (%s.size): the weight matrix is not (old, new)' % (norm(ident.args[0]), params[0]), norm(ident))
        extra_kw = sorted(k for k in kws if k not in ('axis', 'kind', 'bounds_error', 'fill_value', 'copy'))
        ax, kd = kws.get('axis'), kws.get('kind')
        okax = ax is not None and norm(ax) in ('-1', '1')
        okkd = kd is None or const_str(kd) == 'linear'
        okargs = len(ic.args) >= 2 and norm(ic.args[0]) == params[0] and okid
        if extra_kw:
            verdict('interpolant', False, rst, 'interp1d is called with %s: with assume_sorted=True a decreasing source coordinate (pressure, sigma) is not sorted and every target is '
                    'extrapolated from an end segment' % extra_kw, '')
        else:
            verdict('interpolant', okax and okkd and okargs, rst, 'the weights are not the linear interpolant of the identity over the source coordinates along its last axis (%s)' % norm(ic)[:70], norm(ic)[:80])
    if nclipped == 0:
        ctx.violation(Finding('R-PARTUNITY', CU, 'getinterpweights', gw.body[-1], 'no branch for extrapolate=False: weights outside the source range are negative / exceed one'), oid='branch')
    if not seen:
        raise AnalysisError('anchor vanished: identity matrix in getinterpweights')
    for oid, (ok, node, msg) in sorted(seen.items()):
        if ok:
            ctx.ok('R-PARTUNITY', oid, where, msg)
        else:
            ctx.violation(Finding('R-PARTUNITY', CU, 'getinterpweights', node, msg), oid=oid)
    # ---- applications
    napp = 0
    for rp, q in (('core/_files.py', 'PseudoNetCDFFile.interpDimension'), ('cmaqfiles/_ioapi.py', 'ioapi_base.interpSigma'), ('geoschemfiles/_bpch.py', 'bpch_base.interpSigma')):
        m = src.mod(rp)
        if not m.has_func(q):
            raise AnalysisError('anchor vanished: %s in %s' % (q, rp))
        f = m.func(q)
        w = 'src/PseudoNetCDF/%s %s' % (rp, q)
        for c in ast.walk(f):
            # (<W expr> * <data expr>).sum(k)
            if isinstance(c, ast.Call) and isinstance(c.func, ast.Attribute) and c.func.attr == 'sum' and isinstance(c.func.value, ast.BinOp) and isinstance(c.func.value.op, ast.Mult):
                l, r_ = c.func.value.left, c.func.value.right
                wexp, dexp = (l, r_) if 'weights' in norm(l) else ((r_, l) if 'weights' in norm(r_) else (None, None))
                if wexp is None:
                    continue
                napp += 1
                axis = norm(c.args[0]) if c.args else (norm(kw(c, 'axis')) if kw(c, 'axis') is not None else None)
                # position of the source axis in the weights expression: plain W -> 0 ; W[None, :, :, None, None] -> 1
                def src_axis(e):
                    if isinstance(e, ast.Subscript) and isinstance(e.slice, ast.Tuple):
                        pos = 0
                        for el in e.slice.elts:
                            if isinstance(el, ast.Constant) and el.value is None:
                                pos += 1
                            else:
                                return pos
                        return None
                    return 0
                # position of the inserted (target) axis in the data expression: data[:, None] -> 1 ; data[:, :, None] -> 2
                def new_axis(e):
                    if isinstance(e, ast.Subscript) and isinstance(e.slice, ast.Tuple):
                        for k_, el in enumerate(e.slice.elts):
                            if isinstance(el, ast.Constant) and el.value is None:
                                return k_
                    return None
                sa, na = src_axis(wexp), new_axis(dexp)
                oid = '%s@%d' % (q, c.lineno)
                if sa is None or na is None or axis is None:
                    ctx.undec('R-CONTRACT', oid, w, 'application not in the (W * data[..., None]).sum(k) form: %s' % norm(c)[:60])
                elif str(sa) == axis and na == sa + 1:
                    ctx.ok('R-CONTRACT', oid, w, 'source axis %d of the weights summed; target axis inserted at %d of the data' % (sa, na))
                else:
                    ctx.violation(Finding('R-CONTRACT', rp, q, api.stmt_of(c), 'the product is summed over axis %s but the source axis of the weights is %d (target axis of the data inserted at %d): the '
                                          'interpolated values are sums over the wrong axis' % (axis, sa, na)), oid=oid)
    ctx.floor('applications of an interpolation weight matrix', napp, 5)
    # ---- the N-d branch computes the weights for every column from that column's own old *and* new coordinates
    ctx.rule('R-WEIGHTSPERCOL', 'interpDimension (N-d coordinates): the weights of a column are computed inside the column loop, unconditionally, from its own old and new coordinates')
    idf = src.mod('core/_files.py').func('PseudoNetCDFFile.interpDimension')
    widf = 'src/PseudoNetCDF/core/_files.py PseudoNetCDFFile.interpDimension'
    colloops = [l_ for l_ in ast.walk(idf) if isinstance(l_, ast.For) and 'np.ndindex' in norm(l_.iter)]
    if not colloops:
        ctx.undec('R-WEIGHTSPERCOL', 'column loop', widf, 'np.ndindex loops not found')
    else:
        innermost = colloops[-1]
        calls_ = [st for st in innermost.body if isinstance(st, ast.Assign) and isinstance(st.value, ast.Call) and (dotted(st.value.func) or '').endswith('getinterpweights')]
        nested = [c for c in ast.walk(innermost) if isinstance(c, ast.Call) and (dotted(c.func) or '').endswith('getinterpweights')]
        if calls_:
            a_ = [norm(x) for x in calls_[0].value.args[:2]]
            defs_ = dict((norm(st.targets[0]), norm(st.value)) for st in innermost.body if isinstance(st, ast.Assign) and isinstance(st.targets[0], ast.Name))
            if 'olddimvals' in defs_.get(a_[0], '') and 'newdimvals' in defs_.get(a_[1], ''):
                ctx.ok('R-WEIGHTSPERCOL', 'column loop', widf, norm(calls_[0])[:70])
            else:
                ctx.violation(Finding('R-WEIGHTSPERCOL', 'core/_files.py', 'PseudoNetCDFFile.interpDimension', calls_[0], 'the weights are not computed from this column of olddimvals and this column of newdimvals'))
        elif nested:
            g_ = [p_ for p_ in parent_chain(api.stmt_of(nested[0])) if isinstance(p_, ast.If)]
            ctx.violation(Finding('R-WEIGHTSPERCOL', 'core/_files.py', 'PseudoNetCDFFile.interpDimension', api.stmt_of(nested[0]), 'the weights are recomputed only when `%s`: a column whose %s coordinate differs while the tested one '
                                  'repeats is interpolated with another column\'s weights' % (norm(g_[0].test)[:60] if g_ else '?', 'new' if g_ and 'od' in norm(g_[0].test) else 'other')))
        else:
            ctx.violation(Finding('R-WEIGHTSPERCOL', 'core/_files.py', 'PseudoNetCDFFile.interpDimension', innermost, 'the weights are not computed inside the column loop'))
    # ---- mass-conserving form in ioapi_base.interpSigma
    io = src.mod('cmaqfiles/_ioapi.py')
    isf = io.func('ioapi_base.interpSigma')
    w = 'src/PseudoNetCDF/cmaqfiles/_ioapi.py ioapi_base.interpSigma'
    div = [n for n in ast.walk(isf) if isinstance(n, ast.BinOp) and isinstance(n.op, ast.Div) and isinstance(n.left, ast.Call) and isinstance(n.left.func, ast.Attribute) and n.left.func.attr == 'sum'
           and isinstance(n.left.func.value, ast.BinOp) and isinstance(n.left.func.value.op, ast.Mult)]
    if not div:
        ctx.undec('R-NORMSAME', 'conserve', w, 'normalised weighted sum not found in the recognised form')
    for n in div:
        num = n.left
        prod = num.func.value
        wt = prod.right if 'data' in norm(prod.left) else prod.left
        axis = norm(num.args[0]) if num.args else None
        den = n.right
        # denominator: a name defined as <wt>.sum(axis), or that expression itself
        dexp = den
        if isinstance(den, ast.Name):
            defs = [st for st in iter_stmts(isf.body) if isinstance(st, ast.Assign) and norm(st.targets[0]) == den.id]
            dexp = defs[-1].value if defs else None
        ok = isinstance(dexp, ast.Call) and isinstance(dexp.func, ast.Attribute) and dexp.func.attr == 'sum' and norm(dexp.func.value) == norm(wt) and \
            (norm(dexp.args[0]) if dexp.args else None) == axis
        if ok:
            ctx.ok('R-NORMSAME', norm(n)[:50], w, 'divided by %s.sum(%s), the weights of the numerator' % (norm(wt), axis))
        else:
            ctx.violation(Finding('R-NORMSAME', 'cmaqfiles/_ioapi.py', 'ioapi_base.interpSigma', api.stmt_of(n), 'the weighted sum over %s (axis %s) is divided by %s: a constant field is kept constant only if the '
                                  'normaliser is the sum of the same weights over the same axis' % (norm(wt), axis, norm(dexp) if dexp is not None else norm(den))))
        # the weights are thickness x overlap fractions
        if isinstance(wt, ast.Name):
            wd = [st for st in iter_stmts(isf.body) if isinstance(st, ast.Assign) and norm(st.targets[0]) == wt.id]
            full = _paths.subst(wd[-1].value, _paths.dominating_env(isf, wd[-1])) if wd else None
            sc_calls = [c for c in ast.walk(full) if isinstance(c, ast.Call) and (dotted(c.func) or '').split('.')[-1] == 'sigma2coeff' and len(c.args) >= 2] if full is not None else []
            diffs = [c for c in ast.walk(full) if isinstance(c, ast.Call) and (dotted(c.func) or '').split('.')[-1] == 'diff' and c.args] if full is not None else []
            if wd and isinstance(full, ast.BinOp) and isinstance(full.op, ast.Mult) and sc_calls and diffs:
                def base_name(e):
                    while isinstance(e, (ast.Call, ast.Attribute, ast.Subscript, ast.UnaryOp)):
                        e = e.func if isinstance(e, ast.Call) else (e.operand if isinstance(e, ast.UnaryOp) else e.value)
                    return e.id if isinstance(e, ast.Name) else None
                srcn, tgtn = base_name(sc_calls[0].args[0]), base_name(sc_calls[0].args[1])
                dn = base_name(diffs[0].args[0])
                # along which axis of the (source, target) matrix is the thickness broadcast?
                sub = [x for x in ast.walk(full) if isinstance(x, ast.Subscript) and any(y is diffs[0] for y in ast.walk(x.value)) and isinstance(x.slice, ast.Tuple)]
                shape = norm(sub[0].slice) if sub else None
                if dn == srcn and shape in ('(slice(None, None, None), None)', ':, None', '(:, None)') or (dn == srcn and sub and isinstance(sub[0].slice.elts[0], ast.Slice)
                                                                                                            and isinstance(sub[0].slice.elts[1], ast.Constant) and sub[0].slice.elts[1].value is None):
                    ctx.ok('R-NORMSAME', 'mass weights', w, 'thickness of the source layers (%s) along the source axis x overlap fraction' % dn)
                elif dn is not None and dn == tgtn or (dn == srcn and sub and isinstance(sub[0].slice.elts[0], ast.Constant) and sub[0].slice.elts[0].value is None):
                    ctx.violation(Finding('R-NORMSAME', 'cmaqfiles/_ioapi.py', 'ioapi_base.interpSigma', wd[-1], 'the overlap fractions are weighted by the thickness of the %s layers along the %s axis: the factor '
                                          'cancels against the normaliser, so each new layer is the average of the overlap fractions instead of the pressure-thickness-weighted average (the column '
                                          'integral is not conserved on unequal layers)' % ('target' if dn == tgtn else 'source', 'target')), oid='mass weights')
                else:
                    ctx.undec('R-NORMSAME', 'mass weights', w, 'thickness factor %s not traced to the source edges' % norm(diffs[0])[:40])
            else:
                ctx.undec('R-NORMSAME', 'mass weights', w, 'weights are not spelled as layer thickness x overlap fraction')
    # ---- R-SIGMADEF: sigma of the source edges = (p - ptop) / (psurface - ptop) in both GEOS-Chem implementations
    ctx.rule('R-SIGMADEF', 'bpch / gcnc interpSigma: source sigma = (edge pressure - top) / (surface pressure - top), the same top in numerator and denominator')
    nsd = 0
    for rp_, q_ in (('geoschemfiles/_bpch.py', 'bpch_base.interpSigma'), ('geoschemfiles/_gcnc.py', 'gcnc_base.interpSigma')):
        m_ = src.mod(rp_)
        if q_ not in m_.functions:
            cand = [k for k in m_.functions if k.endswith('.interpSigma')]
            if not cand:
                raise AnalysisError('anchor vanished: interpSigma in %s' % rp_)
            q_ = cand[0]
        f_ = m_.functions[q_]
        wq = 'src/PseudoNetCDF/%s %s' % (rp_, q_)
        for st in iter_stmts(f_.body):
            if not (isinstance(st, ast.Assign) and isinstance(st.value, ast.BinOp) and isinstance(st.value.op, ast.Div) and isinstance(st.value.left, ast.BinOp)
                    and isinstance(st.value.left.op, ast.Sub) and 'vgtop' in norm(st.value.left.right)):
                continue
            nsd += 1
            numr, den = st.value.left, st.value.right
            good = isinstance(den, ast.BinOp) and isinstance(den.op, ast.Sub) and norm(den.right) == norm(numr.right) and isinstance(den.left, ast.Subscript) \
                and norm(den.left.value) == norm(numr.left) and norm(den.left.slice) == '0'
            if good:
                ctx.ok('R-SIGMADEF', q_, wq, norm(st.value))
            else:
                ctx.violation(Finding('R-SIGMADEF', rp_, q_, st, 'the source sigma is %s: the denominator has to be the surface pressure minus the same top (%s[0] - %s); otherwise the source '
                                      'levels are scaled against another pressure range than the requested ones and a file interpolated to its own levels changes'
                                      % (norm(st.value), norm(numr.left), norm(numr.right))), oid=q_)
    ctx.floor('sigma definitions judged by R-SIGMADEF', nsd, 2)
    # ---- R-NOSHORTCUT: interpDimension always interpolates; "the coordinates look the same" within a tolerance is not the identity
    ctx.rule('R-NOSHORTCUT', 'interpDimension has no early return that skips the interpolation when old and new coordinates are equal only within a tolerance')
    idf0 = src.mod('core/_files.py').func('PseudoNetCDFFile.interpDimension')
    wid0 = 'src/PseudoNetCDF/core/_files.py PseudoNetCDFFile.interpDimension'
    short = [st for st in ast.walk(idf0) if isinstance(st, ast.If) and any(isinstance(c, ast.Call) and (dotted(c.func) or '').split('.')[-1] in ('allclose', 'isclose', 'array_equal', 'array_equiv')
                                                                           for c in ast.walk(st.test)) and any(isinstance(x, ast.Return) for s2 in st.body for x in ast.walk(s2))]
    tol = [st for st in short if any(isinstance(c, ast.Call) and (dotted(c.func) or '').split('.')[-1] in ('allclose', 'isclose') for c in ast.walk(st.test))]
    if tol:
        ctx.violation(Finding('R-NOSHORTCUT', 'core/_files.py', 'PseudoNetCDFFile.interpDimension', tol[0], 'the result is returned without interpolating when %s: the comparison has a relative tolerance, so large coordinate '
                              'values (epoch seconds, pascals) that differ by less than about 1e-5 of their size count as equal and the data come back on the old coordinate' % norm(tol[0].test)[:70]))
    else:
        ctx.ok('R-NOSHORTCUT', 'interpDimension', wid0, 'no tolerance-based early return (%d exact-equality shortcuts)' % (len(short) - len(tol)))
    # ---- R-COORDSEL: interpDimension takes the old coordinate from the variable the caller named
    ctx.rule('R-COORDSEL', 'interpDimension: with coordkey given, the old coordinate is self.variables[coordkey] (the dimension-named variable only when coordkey is None)')
    fm_ = src.mod('core/_files.py')
    idf = fm_.func('PseudoNetCDFFile.interpDimension')
    wid = 'src/PseudoNetCDF/core/_files.py PseudoNetCDFFile.interpDimension'
    ncs, badcs = 0, None
    for pth in _paths.enumerate_paths(idf.body, limit=20000, relevant=_paths.relevance(idf.body, [st for st in iter_stmts(idf.body) if isinstance(st, ast.Assign)
                                                                                                     and any(isinstance(x, ast.Subscript) and norm(x.value) == 'self.variables'
                                                                                                             and norm(x.slice) in ('coordkey', 'dimkey') for x in ast.walk(st.value))])):
        pol = pth.polarity('coordkey is None')
        if pol is None or pth.exit[0] == 'raise':
            continue
        reads = [norm(x.slice) for st in pth.stmts if isinstance(st, ast.Assign) for x in ast.walk(st.value)
                 if isinstance(x, ast.Subscript) and norm(x.value) == 'self.variables' and norm(x.slice) in ('coordkey', 'dimkey')]
        if not reads:
            continue
        ncs += 1
        if pol is False and reads[0] != 'coordkey':
            badcs = badcs or [st for st in pth.stmts if isinstance(st, ast.Assign) and 'self.variables[dimkey]' in norm(st.value)][0]
    if badcs is not None:
        ctx.violation(Finding('R-COORDSEL', 'core/_files.py', 'PseudoNetCDFFile.interpDimension', badcs, 'on a path where coordkey is given the old coordinate is read from self.variables[dimkey]: a variable '
                              'that happens to be named like the dimension (an index variable) replaces the coordinate the caller named, and the weights are built from the wrong values'))
    elif ncs:
        ctx.ok('R-COORDSEL', 'old coordinate', wid, '%d paths: coordkey given -> self.variables[coordkey]' % ncs)
    else:
        ctx.undec('R-COORDSEL', 'old coordinate', wid, 'selection of the old coordinate not found')
    # ---- overlap fractions
    sc = cu.func('sigma2coeff')
    w = 'src/PseudoNetCDF/%s sigma2coeff' % CU
    store = [st for st in iter_stmts(sc.body) if isinstance(st, ast.Assign) and isinstance(st.targets[0], ast.Subscript) and norm(st.targets[0].value) == 'coeff']
    if not store:
        raise AnalysisError('anchor vanished: coeff[lay, li] store in sigma2coeff')
    st = store[-1]
    # the loop variables by role: for I, (B, T) in enumerate(<edge pairs>): ... for L in range(..): coeff[L, I] = <value>
    loops_ = [l_ for l_ in ast.walk(sc) if isinstance(l_, ast.For) and any(x is st for x in ast.walk(l_))]
    outer = [l_ for l_ in loops_ if isinstance(l_.target, ast.Tuple) and len(l_.target.elts) == 2 and isinstance(l_.target.elts[1], ast.Tuple) and len(l_.target.elts[1].elts) == 2
             and isinstance(l_.iter, ast.Call) and dotted(l_.iter.func) == 'enumerate']
    inner = [l_ for l_ in loops_ if isinstance(l_.target, ast.Name) and isinstance(l_.iter, ast.Call) and dotted(l_.iter.func) == 'range' and l_ is loops_[-1]] or \
        [l_ for l_ in loops_[-1:] if isinstance(l_.target, ast.Name) and isinstance(l_.iter, ast.Call) and dotted(l_.iter.func) == 'range']
    I = Bn = Tn = None
    if outer:
        I = norm(outer[0].target.elts[0])
        Bn, Tn = [norm(e) for e in outer[0].target.elts[1].elts]
    else:
        # for I in range(len(E)): B, T = E[I]
        for l_ in loops_:
            if isinstance(l_.target, ast.Name) and isinstance(l_.iter, ast.Call) and dotted(l_.iter.func) == 'range' and l_.iter.args and 'len(' in norm(l_.iter.args[-1]):
                for s2 in l_.body:
                    if isinstance(s2, ast.Assign) and isinstance(s2.targets[0], ast.Tuple) and len(s2.targets[0].elts) == 2 and isinstance(s2.value, ast.Subscript) \
                            and norm(s2.value.slice) == l_.target.id:
                        I = l_.target.id
                        Bn, Tn = [norm(e) for e in s2.targets[0].elts]
                        outer = [l_]
                # ... or B = E[I][0]; T = E[I][1] as two statements
                two = {}
                for s2 in l_.body:
                    if isinstance(s2, ast.Assign) and isinstance(s2.targets[0], ast.Name) and isinstance(s2.value, ast.Subscript) and isinstance(s2.value.value, ast.Subscript) \
                            and norm(s2.value.value.slice) == l_.target.id and isinstance(s2.value.slice, ast.Constant) and s2.value.slice.value in (0, 1):
                        two[s2.value.slice.value] = s2.targets[0].id
                    # ... or the two-dimensional spelling B = E[I, 0]; T = E[I, 1]
                    if isinstance(s2, ast.Assign) and isinstance(s2.targets[0], ast.Name) and isinstance(s2.value, ast.Subscript) and isinstance(s2.value.slice, ast.Tuple) \
                            and len(s2.value.slice.elts) == 2 and norm(s2.value.slice.elts[0]) == l_.target.id and isinstance(s2.value.slice.elts[1], ast.Constant) \
                            and s2.value.slice.elts[1].value in (0, 1):
                        two[s2.value.slice.elts[1].value] = s2.targets[0].id
                if len(two) == 2 and not outer:
                    I = l_.target.id
                    Bn, Tn = two[0], two[1]
                    outer = [l_]
    if not outer or not inner or inner[-1] is outer[0]:
        raise AnalysisError('construct not understood: loops of sigma2coeff (for i, (b, t) in enumerate(edges): for lay in range(..))')
    lv = inner[-1].target.id
    # the stored value with temporaries substituted (paths.expand over the body of the layer loop)
    val = None
    for pth in _paths.enumerate_paths(inner[-1].body):
        res = _paths.expand(pth)
        for s_, new in res.stmts:
            if s_ is st:
                val = new.value
    if val is None:
        raise AnalysisError('anchor vanished: coeff[lay, li] store in sigma2coeff')
    vt = norm(val)
    m_ = re.match(r'^min\(%s - (\w+), 1\) - max\(%s - (\w+), 0\)$' % (re.escape(Tn), re.escape(Bn)), vt)
    if m_ and (m_.group(1) != lv or m_.group(2) != lv):
        other = m_.group(1) if m_.group(1) != lv else m_.group(2)
        ctx.violation(Finding('R-OVERLAP', CU, 'sigma2coeff', st, 'the fraction is measured from %s instead of the source layer %s of the loop: for every further layer a target '
                              'reaches into, the offset of the first layer is subtracted again, so the overlap fractions are too small or negative' % (other, lv)))
    elif m_:
        ctx.ok('R-OVERLAP', 'coeff', w, 'coeff[%s, %s] = %s' % (lv, I, vt))
    elif isinstance(val, ast.BinOp) and isinstance(val.op, ast.Sub) and 'min(' in norm(val.left) and 'max(' in norm(val.right) and Tn in norm(val.left) and Bn in norm(val.right):
        ctx.undec('R-OVERLAP', 'coeff', w, 'clipping of the fractions not in the recognised form: %s' % vt[:60])
    else:
        ctx.violation(Finding('R-OVERLAP', CU, 'sigma2coeff', st, 'the overlap fraction is %s, not the clipped top fraction minus the clipped bottom fraction: fractions of one source layer no longer sum to one '
                              'and column mass is not conserved' % vt))
    idx = norm(st.targets[0].slice)
    if idx in ('(%s, %s)' % (lv, I), '%s, %s' % (lv, I)):
        ctx.ok('R-OVERLAP', 'index', w, 'stored at [source layer, target layer]')
    else:
        ctx.violation(Finding('R-OVERLAP', CU, 'sigma2coeff', st, 'the fraction is stored at [%s], not [source layer, target layer]: the matrix is transposed against its use (Nold, Nnew)' % idx), oid='index')
    ctx.assumptions += ['scipy.interpolate.interp1d(xs, I, axis=-1, kind="linear") evaluated at nxs returns the (old, new) matrix of linear hat-function weights (scipy documentation)',
                        'numpy broadcasting: W(old, new) * data[:, None] aligns the source axis']
