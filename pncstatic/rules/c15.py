"""C15 - format auto-detection is history independent.

R-REGMUT     only registerreader mutates the process-global reader registry,
             directly or through any alias (E4 provenance of module globals).
R-ISMINEPURE no isMine classmethod stores to a module global or class attribute.
R-SCAN       the detection loop iterates the (copied) registry and returns the
             first reader whose checker accepts - it consults nothing but the
             registry copy, the arguments and isMine.
"""
import ast

from ..engine import AnalysisError, dotted, iter_stmts, norm, walk_expr
from ..prov import Prov, is_input
from ..report import Finding
from .. import consteval

LEVEL_TEXT = (
    "Static who-may-mutate analysis (ast + alias provenance): decides that the process-global reader "
    "registry of _getreader.py is written only by registerreader, through any local alias, and that no "
    "isMine classmethod writes module/class state. This is the structural necessary condition of history "
    "independence; equality of auto-detected and explicitly named results is not decided.")

REG = '_getreader.py'
MUT_EVENTS = ('store-sub', 'aug-name', 'aug-sub', 'del-sub', 'inplace-call')


def registry_globals(mod):
    """module-level names bound to mutable container displays/calls"""
    out = []
    for name, val in mod.assigns.items():
        if isinstance(val, (ast.List, ast.Dict, ast.Set, ast.ListComp, ast.DictComp)):
            out.append(name)
        elif isinstance(val, ast.Call) and dotted(val.func) in ('list', 'dict', 'set', 'OrderedDict'):
            out.append(name)
    return out


def run(ctx):
    src = ctx.src
    ctx.rule('R-REGMUT', 'only registerreader mutates the module-global reader registry (through any alias)')
    ctx.rule('R-ISMINEPURE', 'isMine classmethods store to no module global / class attribute')
    ctx.rule('R-ONEOWNER', 'no isMine hands the decision to the isMine of a reader class that is not its base class')
    ctx.rule('R-SCAN', 'getreader returns the first accepting reader of the registry copy in order')
    mod = src.mod(REG)
    regs = registry_globals(mod)
    if '_readers' not in regs:
        raise AnalysisError('anchor vanished: module-global list _readers in _getreader.py')
    ctx.count('registry globals', len(regs))
    nfun = 0
    rr = mod.func('registerreader')
    rr_globals = set()
    for st in iter_stmts(rr.body):
        if isinstance(st, ast.Global):
            rr_globals |= set(st.names)
    reset_by_registration = set()
    for st in iter_stmts(rr.body):
        if isinstance(st, ast.Assign):
            for t in st.targets:
                if isinstance(t, ast.Name) and t.id in rr_globals:
                    reset_by_registration.add(t.id)
    for q, fn in sorted(mod.functions.items()):
        if '<locals>' in q:
            continue
        nfun += 1
        allowed = (q == 'registerreader')
        p = Prov(mod, fn, receiver=None, globals_tracked=regs)
        events = p.run()
        bad = False
        for ev in events:
            if ev.kind in MUT_EVENTS and ev.base[0] in ('SAME', 'VIEW') and ev.base[1] is not None \
                    and ev.base[1].startswith('global:'):
                if allowed:
                    continue
                bad = True
                ctx.violation(Finding('R-REGMUT', REG, q, ev.stmt,
                                      'registry %s is mutated outside registerreader (%s on an alias of the '
                                      'global list): auto-detection becomes history dependent'
                                      % (ev.base[1][7:], ev.extra or ev.kind)), oid='%s:%s' % (q, norm(ev.stmt)[:60]))
        # detection keeps no state: outside registerreader no function of the module stores any module
        # global (a 'global X' declaration followed by a store to X) - caches of the registry go stale
        declared = set()
        for st in iter_stmts(fn.body):
            if isinstance(st, ast.Global):
                declared |= set(st.names)
        for st in iter_stmts(fn.body):
            tg = []
            if isinstance(st, ast.Assign):
                tg = st.targets
            elif isinstance(st, (ast.AugAssign, ast.AnnAssign)):
                tg = [st.target]
            for t in tg:
                if isinstance(t, ast.Name) and t.id in declared and not allowed:
                    # accepted: a cache that is a function of the registry alone and that
                    # registerreader resets (so it can never be stale)
                    val = getattr(st, 'value', None)
                    names = set(n.id for n in ast.walk(val) if isinstance(n, ast.Name)) if val is not None else set(['?'])
                    pure_cache = isinstance(st, ast.Assign) and names <= (set(regs) | set(['dict', 'list', 'tuple', 'OrderedDict', 'None']))
                    if pure_cache and t.id in reset_by_registration:
                        continue
                    bad = True
                    ctx.violation(Finding('R-REGMUT', REG, q, st,
                                          'module global %s is stored outside registerreader: reader selection keeps '
                                          'state between calls (a cache of the registry is not refreshed by later '
                                          'registrations)' % t.id))
        if not bad:
            ctx.ok('R-REGMUT', q, 'src/PseudoNetCDF/%s %s' % (REG, q),
                   '%d sinks examined, none on an alias of %s' % (len(events), regs))
    ctx.floor('functions of _getreader.py', nfun, 6)

    # R-SCAN: shape of the detection loop
    g = mod.func('getreader')
    loops = [s for s in iter_stmts(g.body) if isinstance(s, ast.For)]
    okscan = False
    for lp in loops:
        itn = lp.iter.id if isinstance(lp.iter, ast.Name) else None
        if itn is None:
            continue
        rets = [s for s in iter_stmts(lp.body) if isinstance(s, ast.Return)]
        if not rets:
            # choose-then-break form: the accepted reader is kept in a local, the loop is left, and that local is returned afterwards
            tnames = set(n_.id for n_ in ast.walk(lp.target) if isinstance(n_, ast.Name))
            kept = [s.targets[0].id for s in iter_stmts(lp.body) if isinstance(s, ast.Assign) and isinstance(s.targets[0], ast.Name) and isinstance(s.value, ast.Name) and s.value.id in tnames]
            brk = any(isinstance(s, ast.Break) for s in iter_stmts(lp.body))
            after = [s for s in iter_stmts(g.body) if isinstance(s, ast.Return) and s.lineno > lp.lineno and isinstance(s.value, ast.Name) and s.value.id in kept]
            if not (kept and brk and after):
                continue
        # the iterated name must be a local (copy or filtered list), never the global itself
        if itn in regs:
            ctx.violation(Finding('R-SCAN', REG, 'getreader', lp, 'detection loop iterates the global registry itself'))
            okscan = True
            continue
        # order-preserving: no sorted/reversed/set on the way (flow-insensitive over the assignments to itn)
        bad = None
        for s in iter_stmts(g.body):
            if isinstance(s, ast.Assign) and any(isinstance(t, ast.Name) and t.id == itn for t in s.targets):
                for c in walk_expr(s.value):
                    if isinstance(c, ast.Call) and dotted(c.func) in ('sorted', 'reversed', 'set', 'frozenset'):
                        bad = s
                    if isinstance(c, ast.Subscript) and isinstance(c.slice, ast.Slice) and c.slice.step is not None:
                        bad = s
            if isinstance(s, ast.Expr) and isinstance(s.value, ast.Call) and isinstance(s.value.func, ast.Attribute) \
                    and isinstance(s.value.func.value, ast.Name) and s.value.func.value.id == itn \
                    and s.value.func.attr in ('sort', 'reverse'):
                bad = s
        if bad is not None:
            ctx.violation(Finding('R-SCAN', REG, 'getreader', bad,
                                  'registry order is changed before the first-accepting-reader scan'))
        else:
            ctx.ok('R-SCAN', 'getreader scan loop', 'src/PseudoNetCDF/%s getreader' % REG,
                   'iterates local %s in order; returns first accepting reader' % itn)
        okscan = True
    if not okscan:
        raise AnalysisError('construct not understood: no first-accepting-reader loop in getreader')

    # R-ASKED: a reader is returned only after its acceptance test was *called* with the caller's arguments
    ctx.rule('R-ASKED', 'getreader returns a reader only under a call of its acceptance test (isMine / trial open)')
    checker_names = set()
    for st in iter_stmts(g.body):
        if isinstance(st, ast.Assign) and isinstance(st.value, ast.Attribute) and st.value.attr == 'isMine':
            checker_names |= set(t.id for t in st.targets if isinstance(t, ast.Name))
        if isinstance(st, ast.FunctionDef):
            if any(isinstance(c, ast.Call) and dotted(c.func) == 'testreader' for c in ast.walk(st)):
                checker_names.add(st.name)
    # wrappers: a function of the module that itself calls <reader>.isMine(...) or testreader(...) is an acceptance test
    for fq, ff in src.mod(REG).functions.items():
        if '.' in fq or ff is g:
            continue
        if any(isinstance(c, ast.Call) and ((isinstance(c.func, ast.Attribute) and c.func.attr == 'isMine' and (c.args or c.keywords)) or dotted(c.func) == 'testreader')
               for c in ast.walk(ff)) and any(isinstance(r_, ast.Return) for r_ in ast.walk(ff)):
            checker_names.add(fq)
    from .. import paths as _paths
    # path-wise (paths.py): every feasible path of getreader that returns a reader has, before the return, either decided "accepted"
    # on a call of the acceptance test (directly, through a wrapper, or through a flag that holds its result) or completed a trial
    # open (testreader) without leaving through its exception handler
    def is_ask(c):
        return isinstance(c, ast.Call) and (c.args or c.keywords) and ((isinstance(c.func, ast.Name) and c.func.id in checker_names) or
                                                                        (isinstance(c.func, ast.Attribute) and c.func.attr == 'isMine'))
    nret = 0
    verdicts = {}
    seeds = [st for st in iter_stmts(g.body) if isinstance(st, ast.Return) and st.value is not None]
    for pth in _paths.enumerate_paths(g.body, limit=60000, relevant=_paths.relevance(g.body, seeds)):
        if pth.exit[0] != 'return' or pth.exit[1] is None:
            continue
        # the scan loop is opaque at function level: look inside it
        continue
    loops_ = [st for st in iter_stmts(g.body) if isinstance(st, ast.For) and any(isinstance(x, ast.Return) and x.value is not None for x in walk_expr(st))]
    blocks = [(lp.body, lp) for lp in loops_] + [(g.body, None)]
    for body_, lp in blocks:
        for pth in _paths.enumerate_paths(body_, limit=60000, relevant=_paths.relevance(body_, [s_ for s_ in iter_stmts(body_) if isinstance(s_, ast.Return)])):
            if pth.exit[0] != 'return' or pth.exit[1] is None:
                continue
            rst = [s_ for s_ in pth.stmts if isinstance(s_, ast.Return)][-1]
            if lp is None and any(any(x is rst or (getattr(x, 'lineno', None) == rst.lineno and isinstance(x, ast.Return)) for x in ast.walk(l2)) for l2 in loops_):
                continue
            res = _paths.expand(pth)
            if not res.feasible:
                continue
            asked = any(p_ is True and any(is_ask(c) for c in ast.walk(x)) for e_, x, p_ in res.conds)
            if not asked and lp is None and isinstance(rst.value, ast.Name):
                # choose-then-break: the returned local is bound inside a scan loop; the question is put where it is bound
                nm_ = rst.value.id
                for l3 in [x for x in iter_stmts(g.body) if isinstance(x, ast.For)]:
                    binds = [s_ for s_ in iter_stmts(l3.body) if isinstance(s_, ast.Assign) and any(isinstance(t, ast.Name) and t.id == nm_ for t in s_.targets)]
                    if not binds:
                        continue
                    allasked = True
                    nb_ = 0
                    for p3 in _paths.enumerate_paths(l3.body, limit=60000):
                        if not any(s_ in binds for s_ in p3.stmts):
                            continue
                        r3 = _paths.expand(p3)
                        if not r3.feasible:
                            continue
                        nb_ += 1
                        k3 = max(i_ for i_, (s_, n_) in enumerate(r3.stmts) if s_ in binds)
                        if not any(p_ is True and any(is_ask(c) for c in ast.walk(x)) for e_, x, p_ in r3.conds[:r3.ncond_at[k3]]):
                            allasked = False
                    # the only other binding outside loops must be a None / placeholder initialisation
                    outer = [s_ for s_ in g.body if isinstance(s_, ast.Assign) and any(isinstance(t, ast.Name) and t.id == nm_ for t in s_.targets)]
                    if nb_ and allasked and all(isinstance(s_.value, ast.Constant) and s_.value.value is None for s_ in outer):
                        asked = True
            if not asked:
                trial = [k_ for k_, s_ in enumerate(pth.stmts) if isinstance(s_, ast.Expr) and isinstance(s_.value, ast.Call) and dotted(s_.value.func) == 'testreader']
                handler_after = [k_ for k_, s_ in enumerate(pth.stmts) if isinstance(s_, ast.Expr) and isinstance(s_.value, ast.Constant) and str(s_.value.value).startswith('<except')]
                asked = bool(trial) and not any(h > trial[-1] for h in handler_after)
            key = (rst.lineno, norm(rst))
            guards = [norm(e_)[:50] for e_, x, p_ in res.conds][-3:]
            if key not in verdicts or (verdicts[key][0] and not asked):
                verdicts[key] = (asked, rst, guards)
    for key, (asked, st, guards) in sorted(verdicts.items()):
        nret += 1
        if asked:
            ctx.ok('R-ASKED', norm(st)[:40], 'src/PseudoNetCDF/%s getreader' % REG, 'under a call of %s' % sorted(checker_names))
        else:
            ctx.violation(Finding('R-ASKED', REG, 'getreader', st, 'a reader is returned without calling its acceptance test on the file (guards: %s): the reader is then chosen '
                                  'by something other than the file content' % (guards or 'none')))
    if not nret:
        raise AnalysisError('construct not understood: getreader returns no reader')

    # R-OWNOPTS: pncopen's own options are taken out of the keywords before the sniffers see them
    ctx.rule('R-OWNOPTS', 'pncopen removes its own options (help, format, addcf, diskless) from the keywords before the detection is asked (isMine(path) takes no such keyword)')
    po = mod.func('pncopen')
    body_ = list(iter_stmts(po.body))
    gr = [i_ for i_, st in enumerate(body_) if any(isinstance(c, ast.Call) and dotted(c.func) == 'getreader' for c in walk_expr(st) if not isinstance(st, (ast.If, ast.For, ast.While, ast.Try, ast.With)))]
    pops = {}
    for i_, st in enumerate(body_):
        for c in walk_expr(st) if not isinstance(st, (ast.If, ast.For, ast.While, ast.Try, ast.With)) else []:
            if isinstance(c, ast.Call) and dotted(c.func) == 'kwds.pop' and c.args and isinstance(c.args[0], ast.Constant):
                pops[c.args[0].value] = (i_, st)
    wpo = 'src/PseudoNetCDF/%s pncopen' % REG
    if not gr:
        ctx.undec('R-OWNOPTS', 'pncopen', wpo, 'no call of getreader')
    else:
        late = sorted(k_ for k_, (i_, st) in pops.items() if i_ > gr[0] and k_ in ('addcf', 'diskless', 'help', 'format'))
        if late:
            ctx.violation(Finding('R-OWNOPTS', REG, 'pncopen', pops[late[0]][1], 'the option %s is removed from the keywords only after getreader(*args, **kwds) has handed them to the sniffers: pncopen(path, %s=...) '
                                  'raises TypeError in every isMine(path) for an undeclared format, while the same call with format= works' % (late[0], late[0])))
        else:
            ctx.ok('R-OWNOPTS', 'pncopen', wpo, 'options %s popped before detection' % sorted(pops))
    # R-SNIFFAGREE: the ICARTT sniffer accepts every first line its reader accepts (finite case analysis of the sniffer on sample lines)
    ctx.rule('R-SNIFFAGREE', 'ffi1001.isMine accepts exactly the first lines that ffi1001.__init__ accepts (comma and/or blank delimited "n, 1001")')
    from .. import consteval
    fm = src.mod('icarttfiles/ffi1001.py')
    sn = fm.func('ffi1001.isMine')
    rd = fm.func('ffi1001.__init__')
    rtxt = norm(rd)
    wsn = 'src/PseudoNetCDF/icarttfiles/ffi1001.py ffi1001.isMine'
    if "if ',' in line: delim = ','" not in rtxt.replace('\n', ' ') and "delim = ','" not in rtxt or "split(line)[-1] != '1001'" not in rtxt:
        ctx.undec('R-SNIFFAGREE', 'reader grammar', wsn, 'the reader no longer decides by split(line)[-1] with a comma-or-blank delimiter; samples not valid')
    else:
        accept = ['104, 1001\n', '1234, 1001\n', '36, 1001\n', '36,1001\n', '36 1001\n', '36\t1001\n', '36 , 1001 \n', '36, 1001\r\n', '104,1001\n', '  36, 1001\n']
        reject = ['36, 2110\n', '36 2310\n', 'hello world\n', '\n', '1001, 36\n']
        hook = lambda n, L=None: None
        res = {}
        for L in accept + reject:
            res[L] = consteval.run_block(sn.body, {}, (lambda L: (lambda n: (L if not n.args else (L[:n.args[0].value] if isinstance(n.args[0], ast.Constant) and isinstance(n.args[0].value, int) and n.args[0].value >= 0 else L)) if isinstance(n, ast.Call) and isinstance(n.func, ast.Attribute) and n.func.attr == 'readline' else None))(L))
        if any(v is consteval.UNK for v in res.values()):
            # an exception inside the try (e.g. [-1] of an empty split) returns False in the sniffer; the evaluator yields UNK there
            unk = [L for L, v in res.items() if v is consteval.UNK]
            if set(unk) <= set(reject):
                for L in unk:
                    res[L] = False
        if any(v is consteval.UNK for v in res.values()):
            ctx.undec('R-SNIFFAGREE', 'isMine', wsn, 'sniffer outside the evaluated fragment for %r' % [L for L, v in res.items() if v is consteval.UNK][:2])
        else:
            wrong = [L for L in accept if not res[L]] + [L for L in reject if res[L]]
            if wrong:
                ctx.violation(Finding('R-SNIFFAGREE', 'icarttfiles/ffi1001.py', 'ffi1001.isMine', sn.body[0].body[0] if isinstance(sn.body[0], ast.Try) else sn.body[0],
                                      'the sniffer %s the first line %r, which the reader %s: auto-detection and format=\'ffi1001\' disagree on this file' % (
                                          'rejects' if wrong[0] in accept else 'accepts', wrong[0], 'accepts' if wrong[0] in accept else 'rejects')))
            else:
                ctx.ok('R-SNIFFAGREE', 'isMine', wsn, 'accepts %d sample first lines the reader accepts, rejects %d it rejects' % (len(accept), len(reject)))

    # R-UNIQNAME: a registered name is never taken again (finite case analysis of the duplicate test of registerreader)
    ctx.rule('R-UNIQNAME', 'registerreader refuses a name that is already registered, whatever class it comes with')
    gate = [st for st in rr.body if isinstance(st, ast.If) and any(isinstance(c, ast.Call) and dotted(c.func) == '_readers.insert' for c in ast.walk(st))]
    wrr = 'src/PseudoNetCDF/%s registerreader' % REG
    if not gate:
        ctx.undec('R-UNIQNAME', 'duplicate test', wrr, 'registration not guarded by a recognisable test')
    else:
        reg0 = [('a', 'A'), ('b', 'B')]
        cases = [(('a', 'A'), False), (('a', 'A2'), False), (('c', 'C'), True), (('c', 'A'), True)]
        wrong = unk = None
        pn = [a.arg for a in rr.args.args]
        for (nm, cls_), want in cases:
            got = consteval.ev(gate[0].test, {'_readers': list(reg0), pn[0]: nm, pn[1]: cls_})
            if got is consteval.UNK:
                unk = (nm, cls_)
            elif bool(got) != want:
                wrong = (nm, cls_, bool(got))
                break
        if wrong:
            ctx.violation(Finding('R-UNIQNAME', REG, 'registerreader', gate[0], 'with %s registered, registering (%r, %s) is %s: the name then has two entries, the name->reader table keeps one class and the '
                                  'first-accepting scan meets the other, so auto-detection and format=<name> disagree' % (reg0, wrong[0], wrong[1], 'accepted' if wrong[2] else 'refused')))
        elif unk:
            ctx.undec('R-UNIQNAME', 'duplicate test', wrr, 'test outside the evaluated fragment: %s' % norm(gate[0].test)[:60])
        else:
            ctx.ok('R-UNIQNAME', 'duplicate test', wrr, 'same name refused with the same or another class; new names accepted')
    # R-PATHKIND: the suffix preference treats every kind of path alike (str and os.PathLike): only os.path / os.fspath / str() touch the path
    ctx.rule('R-PATHKIND', 'getreader derives the extension with os.path functions, not with str methods of the path argument (a PathLike raises inside the swallowing try)')
    bad_ = []
    for c in ast.walk(g):
        if isinstance(c, ast.Call) and isinstance(c.func, ast.Attribute) and norm(c.func.value) in ('args[0]', "kwds['path']", 'path') \
                and c.func.attr in ('rsplit', 'split', 'rpartition', 'partition', 'endswith', 'lower', 'rfind', 'find', 'index', 'strip'):
            bad_.append(c)
        if isinstance(c, ast.Subscript) and norm(c.value) in ('args[0]', "kwds['path']") and isinstance(c.slice, ast.Slice):
            bad_.append(c)
    if bad_:
        ctx.violation(Finding('R-PATHKIND', REG, 'getreader', api_stmt(bad_[0]), '%s assumes a str path: for a pathlib.Path it raises inside the try whose except swallows everything, the suffix preference is '
                              'skipped and another reader wins than for the same path given as str' % norm(bad_[0])[:40]))
    else:
        ctx.ok('R-PATHKIND', 'suffix block', 'src/PseudoNetCDF/%s getreader' % REG, 'path argument only passed to os.path functions')
    # R-PERFILE: the multi-file opener detects every member on its own
    ctx.rule('R-PERFILE', 'pncmfopen opens every path with the caller\'s keywords unchanged (no format decided from another member)')
    mf = mod.func('pncmfopen')
    stores_ = [st for st in iter_stmts(mf.body) if isinstance(st, (ast.Assign, ast.AugAssign)) and any(
        isinstance(t, ast.Subscript) and isinstance(t.value, ast.Name) and t.value.id == 'kwds' for t in (st.targets if isinstance(st, ast.Assign) else [st.target]))]
    stores_ += [st for st in iter_stmts(mf.body) if isinstance(st, ast.Expr) and isinstance(st.value, ast.Call) and dotted(st.value.func) in ('kwds.update', 'kwds.setdefault')]
    if stores_:
        ctx.violation(Finding('R-PERFILE', REG, 'pncmfopen', stores_[0], 'the keywords handed to every pncopen are changed first (%s): a format detected for one member is imposed on all others, so a member is '
                              'opened by another reader than when it is opened alone' % norm(stores_[0])[:50]))
    else:
        ctx.ok('R-PERFILE', 'pncmfopen', 'src/PseudoNetCDF/%s pncmfopen' % REG, 'kwds passed through unchanged')
    # R-ISMINEPURE
    n_ismine = 0
    anchored = set(['_getreader.py', 'core/_files.py', 'register.py'])
    for m in src.all_modules():
        for q, fn in m.functions.items():
            if not q.endswith('.isMine') or '<locals>' in q:
                continue
            n_ismine += 1
            clsname = q.rsplit('.', 1)[0]
            params = [a.arg for a in fn.args.args]
            clsparam = params[0] if params else 'cls'
            globs = set()
            bad = []
            for st in iter_stmts(fn.body):
                if isinstance(st, ast.Global):
                    globs |= set(st.names)
            for st in iter_stmts(fn.body):
                tg = []
                if isinstance(st, ast.Assign):
                    tg = st.targets
                elif isinstance(st, (ast.AugAssign, ast.AnnAssign)):
                    tg = [st.target]
                for t in tg:
                    if isinstance(t, ast.Name) and t.id in globs:
                        bad.append((st, 'stores module global %s' % t.id))
                    if isinstance(t, ast.Attribute) and isinstance(t.value, ast.Name) \
                            and t.value.id in (clsparam, clsname.split('.')[-1]):
                        bad.append((st, 'stores class attribute %s.%s' % (t.value.id, t.attr)))
                    if isinstance(t, ast.Subscript):
                        b = t.value
                        while isinstance(b, (ast.Subscript, ast.Attribute)):
                            b = b.value
                        if isinstance(b, ast.Name) and (b.id in m.assigns and b.id not in _locals(fn)):
                            bad.append((st, 'stores into module-level container %s' % b.id))
                for c in walk_expr(st) if isinstance(st, ast.Expr) else []:
                    if isinstance(c, ast.Call) and dotted(c.func) == 'setattr' and c.args \
                            and isinstance(c.args[0], ast.Name) and c.args[0].id == clsparam:
                        bad.append((st, 'setattr on the class'))
            # one-shot iterators at module / class level that the test reads: consumed by the first probe
            for n in ast.walk(fn):
                if isinstance(n, ast.Name) and isinstance(n.ctx, ast.Load) and n.id in m.assigns and n.id not in _locals(fn):
                    for a in m.assigns[n.id] if isinstance(m.assigns[n.id], list) else [m.assigns[n.id]]:
                        v = getattr(a, 'value', a)
                        if isinstance(v, ast.GeneratorExp) or (isinstance(v, ast.Call) and dotted(v.func) in ('map', 'filter', 'zip', 'iter', 'reversed', 'enumerate', 'open')):
                            bad.append((api_stmt(n), 'reads module-level %s, which is a one-shot iterator (%s): the first probe consumes it' % (n.id, norm(v)[:50])))
            # vacuous acceptance: `for a, b in zip(expected, found): if a != b: return False  else: return True` accepts when `found` is empty
            for lp in [x for x in ast.walk(fn) if isinstance(x, ast.For) and isinstance(x.iter, ast.Call) and dotted(x.iter.func) == 'zip']:
                rets_f = [x for x in ast.walk(lp) if isinstance(x, ast.Return) and isinstance(x.value, ast.Constant) and x.value.value is False and x not in [y for o in lp.orelse for y in ast.walk(o)]]
                acc = [x for o in lp.orelse for x in ast.walk(o) if isinstance(x, ast.Return) and isinstance(x.value, ast.Constant) and x.value.value is True]
                if not rets_f or not acc:
                    continue
                var = [a for a in lp.iter.args if isinstance(a, ast.Name)]
                fromfile = []
                for a in var:
                    defs = [s2 for s2 in iter_stmts(fn.body) if isinstance(s2, ast.Assign) and any(isinstance(t, ast.Name) and t.id == a.id for t in s2.targets)]
                    if defs and any(isinstance(c, ast.Call) and isinstance(c.func, ast.Attribute) and c.func.attr in ('split', 'readline', 'readlines', 'strip') for c in ast.walk(defs[-1].value)):
                        fromfile.append(a.id)
                guarded = any(isinstance(x, ast.Call) and dotted(x.func) == 'len' and x.args and isinstance(x.args[0], ast.Name) and x.args[0].id in fromfile
                              for st2 in iter_stmts(fn.body) if isinstance(st2, (ast.If, ast.Assert)) for x in ast.walk(st2.test))
                if fromfile and not guarded:
                    ctx.rule('R-VACUOUS', 'no sniffer accepts a file because there was nothing to compare (zero-iteration path of a matching loop)')
                    ctx.violation(Finding('R-VACUOUS', m.relpath, q, lp, 'the matching loop over zip(.., %s) returns False on a mismatch and True otherwise; when %s is empty (the line is blank or the file is shorter) '
                                          'the loop body never runs and the file is accepted: this reader claims every short text file ahead of its real reader' % (fromfile[0], fromfile[0])))
            # memoisation: the sniffer, or a function of this module it calls (3 levels), remembers results between calls - a cache keyed by
            # the path string answers for the content the path had at the first probe
            seenf, work = set(), [(fn, 0)]
            while work:
                f_, depth = work.pop()
                if id(f_) in seenf:
                    continue
                seenf.add(id(f_))
                for d_ in f_.decorator_list:
                    dt = (dotted(d_.func) if isinstance(d_, ast.Call) else dotted(d_)) or ''
                    if 'cache' in dt.lower() or 'memo' in dt.lower():
                        bad.append((f_.body[0] if f_ is not fn else fn.body[0], 'calls %s, which is memoised (@%s): the answer for a path is remembered after the file behind it has changed'
                                    % (f_.name, dt) if f_ is not fn else 'is memoised (@%s)' % dt))
                if f_ is not fn:
                    g2 = set(n for st in iter_stmts(f_.body) if isinstance(st, ast.Global) for n in st.names)
                    for st in iter_stmts(f_.body):
                        for t in (st.targets if isinstance(st, ast.Assign) else [st.target] if isinstance(st, (ast.AugAssign, ast.AnnAssign)) else []):
                            b = t
                            while isinstance(b, (ast.Subscript, ast.Attribute)):
                                b = b.value
                            if isinstance(b, ast.Name) and ((isinstance(t, ast.Name) and t.id in g2) or (not isinstance(t, ast.Name) and b.id in m.assigns and b.id not in _locals(f_))):
                                bad.append((st, 'calls %s, which stores into module-level %s' % (f_.name, b.id)))
                if depth < 3:
                    for c in walk_expr(f_):
                        if isinstance(c, ast.Call):
                            tgt = None
                            if isinstance(c.func, ast.Name) and c.func.id in m.functions:
                                tgt = m.functions[c.func.id]
                            elif isinstance(c.func, ast.Attribute) and isinstance(c.func.value, ast.Name) and c.func.value.id in (clsparam, 'self', 'cls') \
                                    and (clsname + '.' + c.func.attr) in m.functions and c.func.attr != 'isMine':
                                tgt = m.functions[clsname + '.' + c.func.attr]
                            if tgt is not None:
                                work.append((tgt, depth + 1))
            # one owner per kind of file: an acceptance test that hands the question to the test of another reader class (not a base
            # class of this one) makes two registered readers accept exactly the same files, and which of them answers an undeclared
            # format is decided by the order of class creation, not by the file
            bases = set()
            cdef = m.classes.get(clsname) if hasattr(m, 'classes') else None
            if cdef is not None:
                bases = set((dotted(b) or '').split('.')[-1] for b in cdef.bases)
            imported = {}
            for st in iter_stmts(fn.body):
                if isinstance(st, ast.ImportFrom):
                    for al in st.names:
                        imported[al.asname or al.name] = al.name
            for st in iter_stmts(fn.body):
                if not isinstance(st, ast.Return) or st.value is None:
                    continue
                for c in walk_expr(st.value):
                    if isinstance(c, ast.Call) and isinstance(c.func, ast.Attribute) and c.func.attr == 'isMine' and isinstance(c.func.value, ast.Name):
                        other = c.func.value.id
                        if other in (clsparam, 'self', 'cls', 'super', clsname.split('.')[-1]) or other in bases or imported.get(other) in bases:
                            continue
                        ctx.violation(Finding('R-ONEOWNER', m.relpath, q, st, 'the acceptance test of %s is the one of another reader class (%s.isMine): two registered readers accept the same '
                                              'files, and an undeclared format is read by whichever class was created last, with other dimensions and variables than the '
                                              'reader the format name selects' % (clsname, other)))
            if bad:
                for st, why in bad:
                    ctx.violation(Finding('R-ISMINEPURE', m.relpath, q, st,
                                          'isMine %s: detection outcome can depend on earlier probes' % why))
            else:
                ctx.ok('R-ISMINEPURE', q, 'src/PseudoNetCDF/%s %s' % (m.relpath, q), 'no global/class store')
    ctx.count('isMine classmethods analysed', n_ismine)
    ctx.floor('isMine classmethods', n_ismine, 20)
    ctx.assumptions.append('isMine implementations are otherwise functions of the file content; reader '
                           'registration happens at import (class creation) only')


def st_in(block, st):
    for b in block:
        if b is st or any(x is st for x in ast.walk(b)):
            return True
    return False


def api_stmt(n):
    from .. import api
    return api.stmt_of(n)


def _locals(fn):
    out = set(a.arg for a in fn.args.args)
    for n in ast.walk(fn):
        if isinstance(n, ast.Name) and isinstance(n.ctx, ast.Store):
            out.add(n.id)
    return out
