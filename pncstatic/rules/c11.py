"""C11 - IOAPI subsetting keeps geo/time referencing (ioapi_base.sliceDimensions).

R-GEOHANDLERS  each georeferencing dimension (COL, ROW, LAY, TSTEP) has a branch guarded by its key that
               stores the attributes the property names, before the closing updatemeta().
R-XYSYM        slot consistency of the horizontal branches: every axis-specific name belongs to the branch's axis.
R-ORIGINIDX    origin shift = arange(<source length>)[selector].take(0) * cell.
R-LAYGUARD     the guard in front of the VGLVLS store is a tautology for every selectable layer (size algebra).
R-LAYEDGES     new edges = selected lower edges + the edge after the last selected layer.
R-TIMESRC      SDATE/STIME/TSTEP are formatted from the *source's* decoded times indexed by the selector;
               no getTimes() on the result while its time attributes are stale.
"""
import ast

from ..engine import parent_chain, AnalysisError, dotted, iter_stmts, norm, walk_expr, const_str
from ..report import Finding
from ..sizealg import to_poly, Poly
from .. import api

LEVEL_TEXT = (
    "Static structural checks of ioapi_base.sliceDimensions (ast, slot-consistency template, size algebra): "
    "exhaustive per-dimension metadata handlers, axis-slot consistency of the origin updates, origin index taken "
    "against the source length, the level-edge guard is a tautology for every layer window, time attributes "
    "formatted from the source's decoded times. Numeric agreement of coordinates/edges/times for every window is not decided.")

RP = 'cmaqfiles/_ioapi.py'
Q = 'ioapi_base.sliceDimensions'
SLOTS = {'COL': ('XORIG', 'XCELL'), 'ROW': ('YORIG', 'YCELL')}
AXIS_NAMES = {'COL': set(['COL', 'XORIG', 'XCELL', 'NCOLS']), 'ROW': set(['ROW', 'YORIG', 'YCELL', 'NROWS'])}
REQUIRED = {'COL': ['XORIG'], 'ROW': ['YORIG'], 'LAY': ['VGLVLS'], 'TSTEP': ['SDATE', 'STIME', 'TSTEP']}


def key_tests(test, names=None):
    """dimension keys K for which the test contains 'K' in <kwds-like name>, directly or through a local name bound to such a test
    (hascol = 'COL' in dimslices) or to the selector itself (sel = dimslices.get('LAY'))"""
    out = []
    for n in ast.walk(test):
        if isinstance(n, ast.Compare) and len(n.ops) == 1 and isinstance(n.ops[0], ast.In) and const_str(n.left) \
                and isinstance(n.comparators[0], ast.Name) and n.comparators[0].id in ('kwds', 'dimslices'):
            out.append(const_str(n.left))
        if names and isinstance(n, ast.Name) and n.id in names:
            out.append(names[n.id][0])
        if isinstance(n, ast.Call) and isinstance(n.func, ast.Attribute) and n.func.attr == 'get' and isinstance(n.func.value, ast.Name) \
                and n.func.value.id in ('kwds', 'dimslices') and n.args and const_str(n.args[0]):
            out.append(const_str(n.args[0]))
    return out


def key_names(fn):
    """local names that stand for 'K given' (kind 'in') or for the selector of K itself (kind 'get')"""
    out = {}
    for st in iter_stmts(fn.body):
        if isinstance(st, ast.Assign) and len(st.targets) == 1 and isinstance(st.targets[0], ast.Name):
            v = st.value
            if isinstance(v, ast.Compare) and len(v.ops) == 1 and isinstance(v.ops[0], ast.In) and const_str(v.left) \
                    and isinstance(v.comparators[0], ast.Name) and v.comparators[0].id in ('kwds', 'dimslices'):
                out[st.targets[0].id] = (const_str(v.left), 'in')
            if isinstance(v, ast.Call) and isinstance(v.func, ast.Attribute) and v.func.attr in ('get', 'pop') and isinstance(v.func.value, ast.Name) \
                    and v.func.value.id in ('kwds', 'dimslices') and v.args and const_str(v.args[0]):
                out[st.targets[0].id] = (const_str(v.args[0]), 'get')
    return out


def attr_stores(body, obj='outf'):
    out = {}
    for st in iter_stmts(body):
        tg = []
        if isinstance(st, ast.Assign):
            tg = st.targets
        elif isinstance(st, ast.AugAssign):
            tg = [st.target]
        for t in tg:
            if isinstance(t, ast.Attribute) and isinstance(t.value, ast.Name) and t.value.id == obj:
                out.setdefault(t.attr, []).append(st)
    return out


# ---------------------------------------------------------------------------------------------------- path-wise facts (paths.py)
KW = ('kwds', 'dimslices')


def _is_kw(c):
    """the selection keywords, a copy of them, or a filtered copy"""
    if isinstance(c, ast.Name) and c.id in KW:
        return True
    if isinstance(c, ast.Call) and isinstance(c.func, ast.Attribute) and c.func.attr in ('copy', 'keys') and _is_kw(c.func.value):
        return True
    if isinstance(c, ast.Call) and isinstance(c.func, ast.Name) and c.func.id == 'dict' and len(c.args) == 1 and _is_kw(c.args[0]):
        return True
    if isinstance(c, ast.DictComp) and len(c.generators) == 1 and isinstance(c.generators[0].iter, ast.Call) and isinstance(c.generators[0].iter.func, ast.Attribute) \
            and c.generators[0].iter.func.attr == 'items' and _is_kw(c.generators[0].iter.func.value):
        return True
    return False


def sel_of(e):
    """(dimension, kind) when the expanded atom/expression is about a selection keyword: kind 'in' for `'D' in kwds`, 'sel' for the
    selector value itself (kwds['D'], kwds.get('D'), kwds.pop('D', ...)), 'none' for `<selector> is None`"""
    if isinstance(e, ast.Compare) and len(e.ops) == 1 and isinstance(e.ops[0], ast.In) and const_str(e.left) is not None and _is_kw(e.comparators[0]):
        return const_str(e.left), 'in'
    if isinstance(e, ast.Subscript) and _is_kw(e.value) and const_str(e.slice) is not None:
        return const_str(e.slice), 'sel'
    if isinstance(e, ast.Call) and isinstance(e.func, ast.Attribute) and e.func.attr in ('get', 'pop') and _is_kw(e.func.value) \
            and e.args and const_str(e.args[0]) is not None:
        return const_str(e.args[0]), 'sel'
    if isinstance(e, ast.Compare) and len(e.ops) == 1 and isinstance(e.ops[0], ast.Is) and isinstance(e.comparators[0], ast.Constant) \
            and e.comparators[0].value is None:
        r = sel_of(e.left)
        if r and r[1] == 'sel':
            return r[0], 'none'
    return None


class Facts(object):
    """every store to an attribute of the result object, path-wise and with temporaries substituted"""

    def __init__(self, fn, obj='outf', limit=60000):
        from .. import paths as _paths
        self.fn, self.obj = fn, obj

        def is_seed(st):
            tg = st.targets if isinstance(st, ast.Assign) else ([st.target] if isinstance(st, ast.AugAssign) else (st.targets if isinstance(st, ast.Delete) else []))
            if any(isinstance(t, ast.Attribute) and isinstance(t.value, ast.Name) and t.value.id == obj for t in tg):
                return True
            if any(isinstance(t, ast.Subscript) and norm(t.value) == obj + '.dimensions' for t in tg):
                return True
            return isinstance(st, ast.Expr) and isinstance(st.value, ast.Call) and dotted(st.value.func) == obj + '.updatemeta'
        seeds = [st for st in iter_stmts(fn.body) if is_seed(st)]
        self.paths = []
        self.stores = []         # dict(attr, aug, value, stmt, conds, before_update, sel, path_index)
        rel = _paths.relevance(fn.body, seeds)
        for pth in _paths.enumerate_paths(fn.body, limit=limit, relevant=rel):
            res = _paths.expand(pth, keep=(obj,))      # the result object stays a name: its attributes are what is stored
            if not res.feasible or pth.exit[0] == 'raise':
                continue
            sel = {}
            truthy = {}
            for e_, x, p_ in res.conds:
                r = sel_of(x)
                if r is None:
                    continue
                if r[1] == 'in':
                    sel[r[0]] = p_
                elif r[1] == 'none':
                    sel[r[0]] = not p_
                elif r[1] == 'sel':
                    truthy[r[0]] = (e_, p_)
            idx = len(self.paths)
            self.paths.append((pth, res, sel, truthy))
            updated = False
            for k_, (st, new) in enumerate(res.stmts):
                if isinstance(st, ast.Expr) and isinstance(st.value, ast.Call) and dotted(st.value.func) == obj + '.updatemeta':
                    updated = True
                tg = new.targets if isinstance(new, ast.Assign) else ([new.target] if isinstance(new, ast.AugAssign) else [])
                for t in tg:
                    if isinstance(t, ast.Attribute) and isinstance(t.value, ast.Name) and t.value.id == obj:
                        self.stores.append(dict(attr=t.attr, aug=isinstance(new, ast.AugAssign), op=getattr(new, 'op', None), value=new.value, stmt=st, new=new,
                                                conds=res.conds[:res.ncond_at[k_]], before_update=not updated, sel=sel, truthy=truthy, path=idx))

    def of(self, attr):
        return [f for f in self.stores if f['attr'] == attr]

    def controlling(self, facts):
        """{expanded atom text: polarity} decided the same way on every path that contains one of these stores, and never decided the
        other way on a path that reaches the same place without the store"""
        out = None
        for f in facts:
            d = {}
            for e_, x, p_ in f['conds']:
                d[norm(x)] = (p_, x)
            if out is None:
                out = d
            else:
                out = dict((k, v) for k, v in out.items() if k in d and d[k][0] == v[0])
        return out or {}


def geo_guard_rules(ctx, facts, required, rp=RP, q=Q):
    """a handler must run whenever its dimension is selected: not under the truth value of the selector (0 is a layer), and not as an
    alternative of the handler of another dimension"""
    for dk, attrs in sorted(required.items()):
        fs = [f for a in attrs for f in facts.of(a) if f['sel'].get(dk) is True or dk in f['truthy']]
        if not fs:
            continue
        tr = [f for f in fs if dk in f['truthy'] and f['truthy'][dk][1] is True and f['sel'].get(dk) is not True]
        if tr:
            t = tr[0]['truthy'][dk][0]
            ctx.violation(Finding('R-GEOHANDLERS', rp, q, tr[0]['stmt'], 'the %s handler runs only when the selector itself is truthy (%s): the integer 0 - the first layer/row/column/step - is a valid '
                                  'selection and is skipped, so %s keep the source values' % (dk, norm(t)[:40], '/'.join(attrs))), oid=dk + ':truthy')
        # when two dimensions are selected in one call both handlers run: some path stores the attributes of both
        for d2 in sorted(required):
            if d2 <= dk:
                continue
            fs2 = [f for a in required[d2] for f in facts.of(a) if f['sel'].get(d2) is True or d2 in f['truthy']]
            if not fs2:
                continue
            joint = set(f['path'] for f in fs) & set(f['path'] for f in fs2)
            if not joint:
                later, first = (dk, d2) if fs[0]['stmt'].lineno > fs2[0]['stmt'].lineno else (d2, dk)
                lf = fs if later == dk else fs2
                ctx.violation(Finding('R-GEOHANDLERS', rp, q, lf[0]['stmt'], 'the %s handler is an alternative (elif) of the %s handler: when both dimensions are selected in one call only the first runs and %s '
                                      'keep the source values' % (later, first, '/'.join(required[later]))), oid=later + ':elif')


def run(ctx):
    for r, d in (('R-GEOHANDLERS', 'COL/ROW/LAY/TSTEP each have a handler storing XORIG / YORIG / VGLVLS / SDATE,STIME,TSTEP before updatemeta()'),
                 ('R-XYSYM', 'horizontal handlers mention only names of their own axis'),
                 ('R-ORIGINIDX', 'origin += arange(len(self.dimensions[D]))[kwds[D]].take(0) * cell'),
                 ('R-LAYGUARD', 'guard before the VGLVLS store is true for every selectable layer'),
                 ('R-LAYEDGES', 'edges = VGLVLS[lidx] + VGLVLS[lidx[-1] + 1]'),
                 ('R-TIMESRC', 'time attributes come from self.getTimes()[kwds[TSTEP]]')):
        ctx.rule(r, d)
    mod = ctx.src.mod(RP)
    fn = mod.func(Q)
    where = 'src/PseudoNetCDF/%s %s' % (RP, Q)
    # the closing updatemeta
    if not any(isinstance(st, ast.Expr) and isinstance(st.value, ast.Call) and dotted(st.value.func) == 'outf.updatemeta' for st in iter_stmts(fn.body)):
        raise AnalysisError('anchor vanished: closing outf.updatemeta() in ioapi_base.sliceDimensions')
    facts = Facts(fn)
    ctx.count('paths of ioapi_base.sliceDimensions (feasible, sliced to the metadata stores)', len(facts.paths))
    geo_guard_rules(ctx, facts, REQUIRED)
    nh = 0
    for dk, attrs in sorted(REQUIRED.items()):
        per = dict((a, [f for f in facts.of(a) if f['sel'].get(dk) is True or dk in f['truthy']]) for a in attrs)
        anyf = [f for a in attrs for f in per[a]]
        if not anyf:
            unsel = [f for a in attrs for f in facts.of(a)]
            ctx.violation(Finding('R-GEOHANDLERS', RP, Q, unsel[0]['stmt'] if unsel else 'handler for %s' % dk,
                                  'no branch guarded by %r in the selection keywords: %s is not adjusted when %s is subset'
                                  % (dk, '/'.join(attrs), dk), lineno=fn.lineno), oid=dk)
            continue
        nh += 1
        missing = [a for a in attrs if not per[a]]
        if not any(f['before_update'] for f in anyf):
            ctx.violation(Finding('R-GEOHANDLERS', RP, Q, anyf[0]['stmt'], 'handler for %s runs after updatemeta()' % dk), oid=dk)
        elif missing:
            ctx.violation(Finding('R-GEOHANDLERS', RP, Q, anyf[0]['stmt'],
                                  'the %s handler does not store %s of the result' % (dk, missing)), oid=dk)
        else:
            ctx.ok('R-GEOHANDLERS', dk, where, '%s handler stores %s' % (dk, attrs))
    # ---- horizontal branches
    for dk in ('COL', 'ROW'):
        origin, cell = SLOTS[dk]
        fs = [f for f in facts.of(origin)]
        if not fs:
            continue
        other = AXIS_NAMES['ROW' if dk == 'COL' else 'COL']
        ctrl = facts.controlling(fs)
        mentioned = set()
        # what the handler refers to: the stored expression, and the positive membership guards that every storing path passed
        parts = [f['new'] for f in fs] + [v[1] for v in ctrl.values() if v[0] is True and isinstance(v[1], ast.Compare) and len(v[1].ops) == 1
                                          and isinstance(v[1].ops[0], ast.In) and const_str(v[1].left) is not None]
        for n in [x for part in parts for x in ast.walk(part)]:
            if isinstance(n, ast.Constant) and isinstance(n.value, str):
                mentioned.add(n.value)
            if isinstance(n, ast.Attribute):
                mentioned.add(n.attr)
        foreign = sorted(mentioned & other)
        unsel = [f for f in fs if f['sel'].get(dk) is not True]
        if foreign or unsel:
            ctx.violation(Finding('R-XYSYM', RP, Q, (unsel or fs)[0]['stmt'],
                                  'the %s handler mentions %s, which belong to the other horizontal axis (copy-paste slip): '
                                  'the origin is shifted by the wrong length/selector/cell size' % (dk, foreign or ['a guard on the other axis'])), oid=dk)
        else:
            ctx.ok('R-XYSYM', dk, where, 'mentions only %s' % sorted(mentioned & AXIS_NAMES[dk]))
        # template: outf.<origin> += np.arange(n)[kwds[dk]].take(0) * outf.<cell>
        okt = False
        why = 'no store to %s' % origin
        st = fs[0]['stmt']
        for f in fs:
            val = f['value']
            okt = False
            if f['aug'] and isinstance(f['op'], ast.Add):
                pass
            elif not f['aug'] and isinstance(val, ast.BinOp) and isinstance(val.op, ast.Add) and norm(val.left).endswith('.' + origin):
                val = val.right
            elif not f['aug'] and isinstance(val, ast.BinOp) and isinstance(val.op, ast.Add) and norm(val.right).endswith('.' + origin):
                val = val.left
            else:
                val = None
                why = '%s is not advanced additively' % origin
            if val is not None and isinstance(val, ast.BinOp) and isinstance(val.op, ast.Mult):
                sides = [val.left, val.right]
                cellside = [s_ for s_ in sides if isinstance(s_, ast.Attribute) and s_.attr == cell]
                idxside = [s_ for s_ in sides if s_ not in cellside]
                if cellside and idxside:
                    ix = idxside[0]
                    txt = norm(ix)
                    ar = [c for c in walk_expr(ix) if isinstance(c, ast.Call) and (dotted(c.func) or '').endswith('arange')]
                    sel = [s_ for s_ in walk_expr(ix) if sel_of(s_) == (dk, 'sel')]
                    # the first selected index: arange(n)[selector] then .take(0) / [0] / .min() is not accepted (reversed slices)
                    first = ('.take(0)' in txt or txt.endswith('[0]')) and any(isinstance(x, ast.Subscript) and x.value is ar[0] and sel_of(x.slice) == (dk, 'sel')
                                                                                for x in walk_expr(ix)) if ar else False
                    if ar and sel and first:
                        ndef = norm(ar[0].args[0]) if ar[0].args else ''
                        if ndef == "len(self.dimensions['%s'])" % dk:
                            okt = True
                        else:
                            why = 'the index is resolved against %s instead of the source length len(self.dimensions[%r])' % (ndef, dk)
                    else:
                        why = 'index expression %s is not arange(n)[kwds[%r]].take(0)' % (txt[:60], dk)
                else:
                    why = 'shift is not <first index> * %s' % cell
            elif val is not None:
                why = 'shift is not a product index * cell'
            if not okt:
                st = f['stmt']
                break
        if okt:
            ctx.ok('R-ORIGINIDX', dk, where, '%s += arange(len(self.dimensions[%r]))[kwds[%r]].take(0) * %s' % (origin, dk, dk, cell))
        else:
            ctx.violation(Finding('R-ORIGINIDX', RP, Q, st, '%s handler: %s' % (dk, why)), oid=dk)
    lay_rules(ctx, fn, facts, where)
    # ---- TSTEP branch: the value SDATE is formatted from
    fs = facts.of('SDATE')
    if fs:
        verdicts = []
        for f in fs:
            gts = [c for c in walk_expr(f['value']) if isinstance(c, ast.Call) and isinstance(c.func, ast.Attribute) and c.func.attr == 'getTimes']
            if not gts:
                verdicts.append(('undec', f, None))
                continue
            arith = [b for b in walk_expr(f['value']) if isinstance(b, ast.BinOp) and isinstance(b.op, (ast.Add, ast.Sub))
                     and any(isinstance(x, ast.Attribute) and x.attr in ('SDATE', 'STIME') for x in ast.walk(b))]
            if arith:
                verdicts.append(('arith', f, arith[0]))
                continue
            g = gts[0]
            selected = any(isinstance(x, ast.Subscript) and x.value is g and sel_of(x.slice) == ('TSTEP', 'sel') for x in walk_expr(f['value']))
            if isinstance(g.func.value, ast.Name) and g.func.value.id == 'self' and selected:
                verdicts.append(('ok', f, g))
            elif isinstance(g.func.value, ast.Name) and g.func.value.id != 'self':
                verdicts.append(('stale', f, g))
            else:
                verdicts.append(('undec', f, g))
        stale = [v for v in verdicts if v[0] == 'stale']
        ar = [v for v in verdicts if v[0] == 'arith']
        if ar:
            ctx.violation(Finding('R-TIMESRC', RP, Q, ar[0][1]['stmt'],
                                  'the new start date is computed by adding to the YYYYDDD-coded attribute (%s): day arithmetic on a year-and-day-of-year number does not roll over at the '
                                  'end of a year (2018365 + 1 = 2018366, not 2019001); the start has to be formatted from the first selected time' % norm(ar[0][2])[:60]))
        elif stale:
            ctx.violation(Finding('R-TIMESRC', RP, Q, stale[0][1]['stmt'],
                                  'the new start date/time is read with %s.getTimes() while the time attributes of the result '
                                  'are still the stale copies of the source: for a file without a TFLAG variable the window '
                                  'keeps the source start time' % stale[0][2].func.value.id))
        elif all(v[0] == 'ok' for v in verdicts):
            ctx.ok('R-TIMESRC', 'SDATE/STIME source', where, "formatted from self.getTimes()[kwds['TSTEP']] on %d storing paths" % len(verdicts))
        else:
            u = [v for v in verdicts if v[0] == 'undec'][0]
            ctx.undec('R-TIMESRC', norm(u[1]['new'])[:70], where, 'source of the new start time not recognised')
    else:
        ctx.undec('R-TIMESRC', 'SDATE/STIME source', where, 'no SDATE store (see R-GEOHANDLERS)')
    # ---- R-STEPSET: the new TSTEP is stored whenever more than one time is retained - not only under a further condition
    ctx.rule('R-STEPSET', 'the TSTEP attribute of a time selection is stored on every path that retains more than one time (no further condition, e.g. only for irregular steps)')
    ts = facts.of('TSTEP')
    if not ts:
        ctx.undec('R-STEPSET', 'TSTEP', where, 'no TSTEP store (see R-GEOHANDLERS)')
    else:
        ctl = facts.controlling(ts)
        extra = []
        for k_, (pol, x) in sorted(ctl.items()):
            if sel_of(x) is not None:
                continue
            if any(isinstance(n_, ast.Attribute) and n_.attr in ('size', 'shape', 'ndim') for n_ in ast.walk(x)) or 'len(' in k_:
                continue        # how many times are retained
            if 'newdims' in k_ or 'isscalar' in k_:
                continue
            extra.append((k_, pol))
        if extra:
            ctx.violation(Finding('R-STEPSET', RP, Q, ts[0]['stmt'], 'the new TSTEP is stored only when %s is %s: for every other selection of several times (e.g. a regular stride) the result keeps '
                                  'the step of the source while its time flags are those of the selection' % (extra[0][0][:60], extra[0][1])))
        else:
            ctx.ok('R-STEPSET', 'TSTEP', where, 'stored under %s only' % (sorted(k_[:40] for k_ in ctl) or 'no condition'))
    # ---- wrapper classification of selector kinds agrees with the base method (numpy integers are integers)
    from . import c02
    ctx.rule('R-KINDS', 'the wrapper classifies selector kinds (int, numpy int, slice, sequence) exactly like the base method')
    isarr = None
    for st in iter_stmts(fn.body):
        if isinstance(st, ast.Assign) and norm(st.targets[0]) == 'isarray' and isinstance(st.value, ast.DictComp):
            isarr = st.value
    if isarr is None:
        ctx.undec('R-KINDS', 'isarray', where, 'wrapper has no kind classification')
    else:
        v = isarr.generators[0].target.elts[1].id
        part = dict((k, c02.abs_pred(isarr.value, k, v)) for k in c02.KINDS)
        if None in part.values():
            ctx.undec('R-KINDS', 'isarray', where, 'predicate not understood: %s' % norm(isarr.value))
        elif part == {'INT': False, 'NPINT': False, 'SLICE': False, 'SEQ': True}:
            ctx.ok('R-KINDS', 'isarray', where, 'int/numpy int/slice are not arrays; sequences are')
        else:
            ctx.violation(Finding('R-KINDS', RP, Q, api.stmt_of(isarr), 'the wrapper classifies selector kinds as %s: a numpy integer (or other scalar) is treated as an index array, so with ROW and COL '
                                  'both given that way the origin update is skipped and the dimensions are deleted' % part))
    # ---- the step encoded into TSTEP: HHMMSS = hours*10000 + minutes*100 + seconds
    ctx.rule('R-HMSENC', 'a time built arithmetically from seconds is hours*10000 + minutes*100 + seconds')
    seen_h = set()
    for f in [f for a in ('TSTEP', 'STIME', 'ETIME') for f in facts.of(a)]:
        st, value = f['stmt'], f['value']
        if (id(st), norm(value)) in seen_h:
            continue
        seen_h.add((id(st), norm(value)))
        if isinstance(value, ast.Call) and dotted(value.func) == 'int' and "strftime('%H%M%S')" in norm(value):
            # a time of day may be formatted from a datetime; a *step* (a duration added to some date) may not: %H wraps at 24 hours
            dur = [x for x in ast.walk(value) if isinstance(x, ast.Call) and isinstance(x.func, ast.Attribute) and x.func.attr == 'strftime'
                   and isinstance(x.func.value, ast.BinOp) and isinstance(x.func.value.op, ast.Add) and 'datetime(' in norm(x.func.value.left)]
            if dur and f['attr'] == 'TSTEP':
                ctx.violation(Finding('R-HMSENC', RP, Q, st, "the step is encoded as strftime('%%H%%M%%S') of a fixed date plus the step (%s): whole days are dropped, so a window of a daily file "
                                      '(TSTEP 240000) gets TSTEP 0' % norm(dur[0].func.value)[:50]))
            else:
                ctx.ok('R-HMSENC', norm(st)[:60], where, "HHMMSS text from strftime('%H%M%S')")
        if isinstance(value, ast.Call) and (dotted(value.func) or '').split('.')[-1] == '_timedelta2tstep':
            hf = ctx.src.mod(RP).functions.get('_timedelta2tstep')
            # the helper is evaluated on sample steps (the only run-time call in it, <arg>.total_seconds(), is supplied by the sample)
            from .. import consteval as _ce
            verdict_ = 'unk'
            if hf is not None and hf.args.args:
                arg_ = hf.args.args[0].arg
                wrong_ = None
                verdict_ = 'ok'
                for secs_, want_ in ((0, 0), (59, 59), (60, 100), (1800, 3000), (3599, 5959), (3600, 10000), (86400, 240000), (90061, 250101), (604800, 1680000), (360000, 1000000)):
                    def hook_(n, secs_=secs_, arg_=arg_):
                        if isinstance(n, ast.Call) and isinstance(n.func, ast.Attribute) and n.func.attr == 'total_seconds' and norm(n.func.value) == arg_:
                            return float(secs_)
                        return None
                    body2 = [s2 for s2 in hf.body if not (isinstance(s2, ast.Expr) and isinstance(s2.value, ast.Constant))]
                    got_ = _ce.run_block(body2, {}, hook_)
                    if got_ is _ce.UNK:
                        verdict_ = 'unk'
                        break
                    if got_ != want_:
                        wrong_ = (secs_, got_, want_)
                        verdict_ = 'bad'
                        break
            if verdict_ == 'ok':
                ctx.ok('R-HMSENC', norm(st)[:60], where, 'step encoded by _timedelta2tstep: 10 sample steps (0 s .. 7 days) give hours*10000 + minutes*100 + seconds')
            elif verdict_ == 'bad':
                ctx.violation(Finding('R-HMSENC', RP, Q, st, 'the step is encoded by _timedelta2tstep, which turns %d seconds into %r instead of %d' % wrong_))
            else:
                ctx.undec('R-HMSENC', norm(st)[:60], where, '_timedelta2tstep is outside the evaluated fragment')
        if isinstance(value, ast.BinOp) and isinstance(value.op, ast.Add):
            terms = []
            def flat(e):
                if isinstance(e, ast.BinOp) and isinstance(e.op, ast.Add):
                    flat(e.left); flat(e.right)
                else:
                    terms.append(e)
            flat(value)
            bad = []
            for t_ in terms:
                tx = norm(t_).replace('(', '').replace(')', '')
                unit = 'h' if '// 3600' in tx else ('m' if ('% 3600 // 60' in tx or '// 60 % 60' in tx) else ('s' if '% 60' in tx else None))
                mult = 1
                if isinstance(t_, ast.BinOp) and isinstance(t_.op, ast.Mult) and isinstance(t_.right, ast.Constant):
                    mult = t_.right.value
                want = {'h': 10000, 'm': 100, 's': 1}.get(unit)
                if unit is None:
                    bad = None
                    break
                if mult != want:
                    bad.append((tx, unit, mult, want))
            if bad is None:
                ctx.undec('R-HMSENC', norm(st)[:60], where, 'terms not recognised as hour/minute/second parts')
            elif bad:
                ctx.violation(Finding('R-HMSENC', RP, Q, st, 'the %s part (%s) is multiplied by %s instead of %s: a step with minutes is written as a wrong HHMMSS value' % (
                    {'h': 'hours', 'm': 'minutes', 's': 'seconds'}[bad[0][1]], bad[0][0], bad[0][2], bad[0][3])))
            else:
                ctx.ok('R-HMSENC', norm(st)[:60], where, 'hours*10000 + minutes*100 + seconds')
    if not any(o.get('rule') == 'R-GEOHANDLERS' and o.get('status') == 'violated' for o in ctx.obligations):
        ctx.floor('georeferencing handlers', nh, 4)
    ctx.assumptions.append('np.arange(n)[selector] resolves negative integers and slices against length n (numpy indexing)')


def lay_rules(ctx, fn, facts, where, rp=RP, q=Q):
    """the stored level edges, with temporaries substituted: np.append(VGLVLS[IDX], VGLVLS[IDX[-1] + 1]) where IDX is the selector
    resolved against the number of layers (arange(VGLVLS.size - 1)[selector]); every decision on the way to the store that compares
    the last selected layer with a bound is true for every selectable layer (size algebra)"""
    if isinstance(facts, ast.AST) or facts is None:
        raise AnalysisError('construct not understood: LAY handler of ioapi_base.sliceDimensions')
    fs = [f for f in facts.of('VGLVLS') if f['sel'].get('LAY') is True or 'LAY' in f['truthy']]
    if not fs:
        if facts.of('VGLVLS'):
            raise AnalysisError('construct not understood: LAY handler of ioapi_base.sliceDimensions')
        return
    S1 = to_poly(ast.parse('outf.VGLVLS.size - 1').body[0].value, {}, atomize=_atom)
    understood, notund, seenv = 0, [], set()
    for f in fs:
        if norm(f['value']) in seenv:
            continue
        seenv.add(norm(f['value']))
        v, st = f['value'], f['stmt']
        # strip view/copy wrappers around the appended array
        while isinstance(v, ast.Call) and isinstance(v.func, ast.Attribute) and v.func.attr in ('view', 'copy') :
            v = v.func.value
        app = v if isinstance(v, ast.Call) and (dotted(v.func) or '').endswith('append') and len(v.args) == 2 else None
        idx = None
        if app is not None and isinstance(app.args[0], ast.Subscript) and norm(app.args[0].value) == 'outf.VGLVLS':
            idx = app.args[0].slice
        if idx is None:
            # which index reads VGLVLS at all?
            subs = [x for x in walk_expr(f['value']) if isinstance(x, ast.Subscript) and norm(x.value) in ('outf.VGLVLS', 'self.VGLVLS')]
            idx = subs[0].slice if subs else None
        if idx is None:
            ctx.violation(Finding('R-LAYEDGES', rp, q, st, 'new level edges are not VGLVLS[lidx] + VGLVLS[lidx[-1] + 1] with lidx '
                                  'an index into the layers (arange(VGLVLS.size - 1))'))
            continue
        itxt = norm(idx)
        ar = [c for c in walk_expr(idx) if isinstance(c, ast.Call) and (dotted(c.func) or '').endswith('arange') and c.args]
        selected = [x for x in walk_expr(idx) if isinstance(x, ast.Subscript) and sel_of(x.slice) == ('LAY', 'sel')]
        bound = None
        if ar and selected and selected[0].value is ar[0]:
            bound = to_poly(ar[0].args[0], {}, atomize=_atom)
        elif ar and len(ar[0].args) == 1 and isinstance(ar[0].args[0], ast.Starred) and isinstance(ar[0].args[0].value, ast.Call) \
                and isinstance(ar[0].args[0].value.func, ast.Attribute) and ar[0].args[0].value.func.attr == 'indices' \
                and sel_of(ar[0].args[0].value.func.value) == ('LAY', 'sel') and ar[0].args[0].value.args:
            bound = to_poly(ar[0].args[0].value.args[0], {}, atomize=_atom)       # arange(*selector.indices(n))
        if bound is None:
            if not any(tok in itxt for tok in ('arange(', '.indices(', ' % ', 'np.where(', 'range(')):
                ctx.rule('R-LAYNORM', 'the layer selector is resolved against the number of layers before it indexes the (one longer) edge array')
                ctx.violation(Finding('R-LAYNORM', rp, q, st, 'the layer selector is used as given (%s): a negative integer then indexes VGLVLS, which has one more entry than '
                                      'there are layers, from its end, and the window gets the edges of another layer' % itxt[:60]))
                understood += 1
                continue
            notund.append(itxt[:60])
            continue
        understood += 1
        last = '%s[-1]' % itxt
        # guards: decisions on this path that compare the last selected layer
        okg, ng = True, 0
        for e_, x, p_ in f['conds']:
            if not (isinstance(x, ast.Compare) and len(x.ops) == 1 and norm(x.left) == last):
                continue
            ng += 1
            rhs = to_poly(x.comparators[0], {}, atomize=_atom)
            c = (rhs - bound).constval()
            good = False
            if c is not None and p_ is True:
                if isinstance(x.ops[0], ast.Lt) and c >= 0:
                    good = True
                if isinstance(x.ops[0], ast.LtE) and c >= -1:
                    good = True
                if not good:
                    ctx.violation(Finding('R-LAYGUARD', rp, q, 'if ' + norm(e_),
                                          'layers 0..(%s)-1 can be selected, but the VGLVLS store is skipped when the last '
                                          'selected layer is >= %s: a window that reaches the top layer keeps the full source '
                                          'level list (VGLVLS no longer has NLAYS+1 entries)' % (bound, rhs), lineno=getattr(e_, 'lineno', st.lineno)))
                    okg = False
                    continue
            if not good:
                ctx.undec('R-LAYGUARD', norm(e_)[:60], where, 'guard not understood by the size algebra')
                okg = None
        if okg:
            ctx.ok('R-LAYGUARD', 'VGLVLS store', where, '%d guard(s), each true for every index below %s' % (ng, bound))
        # edges template
        end_ok = app is not None and isinstance(app.args[1], ast.Subscript) and norm(app.args[1].value) == 'outf.VGLVLS' \
            and norm(app.args[1].slice) == '%s + 1' % last
        if app is not None and norm(app.args[0].slice) == itxt and end_ok and bound == S1:
            ctx.ok('R-LAYEDGES', 'VGLVLS', where, 'VGLVLS[lidx] appended with VGLVLS[lidx[-1] + 1]; lidx drawn from arange(VGLVLS.size - 1)')
        else:
            ctx.violation(Finding('R-LAYEDGES', rp, q, st, 'new level edges are not VGLVLS[lidx] + VGLVLS[lidx[-1] + 1] with lidx '
                                  'an index into the layers (arange(VGLVLS.size - 1))'))
    if notund and not understood:
        raise AnalysisError('construct not understood: LAY handler of ioapi_base.sliceDimensions (index %s)' % notund[0])
    for t_ in notund:
        ctx.undec('R-LAYEDGES', t_, where, 'layer index not in a recognised form on this path')


def _atom(n):
    t = norm(n)
    if t in ('outf.VGLVLS.size', 'len(outf.VGLVLS)', 'outf.VGLVLS.shape[0]'):
        return 'S'
    return None
