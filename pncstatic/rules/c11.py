"""C11 - IOAPI subsetting keeps geo/time referencing (ioapi_base.sliceDimensions).

R-GEOHANDLERS  each georeferencing dimension (COL, ROW, LAY, TSTEP) has a branch guarded by its key that
               stores the attributes the property names, before the closing updatemeta().
R-XYSYM        slot consistency of the horizontal branches: every axis-specific name belongs to the branch's axis.
R-ORIGINIDX    origin shift = arange(<source length>)[selector].take(0) * cell.
R-LAYGUARD     the guard in front of the VGLVLS store is a tautology for every selectable layer (size algebra).
R-LAYEDGES     new edges = selected lower edges + the edge after the last selected layer.
R-TIMESRC      SDATE/STIME/TSTEP are formatted from the *source's* decoded times indexed by the selector;
               no getTimes() on the result while its time attributes are stale.
"""
import ast

from ..engine import parent_chain, AnalysisError, dotted, iter_stmts, norm, walk_expr, const_str
from ..report import Finding
from ..sizealg import to_poly, Poly
from .. import api

LEVEL_TEXT = (
    "Static structural checks of ioapi_base.sliceDimensions (ast, slot-consistency template, size algebra): "
    "exhaustive per-dimension metadata handlers, axis-slot consistency of the origin updates, origin index taken "
    "against the source length, the level-edge guard is a tautology for every layer window, time attributes "
    "formatted from the source's decoded times. Numeric agreement of coordinates/edges/times for every window is not decided.")

RP = 'cmaqfiles/_ioapi.py'
Q = 'ioapi_base.sliceDimensions'
SLOTS = {'COL': ('XORIG', 'XCELL'), 'ROW': ('YORIG', 'YCELL')}
AXIS_NAMES = {'COL': set(['COL', 'XORIG', 'XCELL', 'NCOLS']), 'ROW': set(['ROW', 'YORIG', 'YCELL', 'NROWS'])}
REQUIRED = {'COL': ['XORIG'], 'ROW': ['YORIG'], 'LAY': ['VGLVLS'], 'TSTEP': ['SDATE', 'STIME', 'TSTEP']}


def key_tests(test, names=None):
    """dimension keys K for which the test contains 'K' in <kwds-like name>, directly or through a local name bound to such a test
    (hascol = 'COL' in dimslices) or to the selector itself (sel = dimslices.get('LAY'))"""
    out = []
    for n in ast.walk(test):
        if isinstance(n, ast.Compare) and len(n.ops) == 1 and isinstance(n.ops[0], ast.In) and const_str(n.left) \
                and isinstance(n.comparators[0], ast.Name) and n.comparators[0].id in ('kwds', 'dimslices'):
            out.append(const_str(n.left))
        if names and isinstance(n, ast.Name) and n.id in names:
            out.append(names[n.id][0])
        if isinstance(n, ast.Call) and isinstance(n.func, ast.Attribute) and n.func.attr == 'get' and isinstance(n.func.value, ast.Name) \
                and n.func.value.id in ('kwds', 'dimslices') and n.args and const_str(n.args[0]):
            out.append(const_str(n.args[0]))
    return out


def key_names(fn):
    """local names that stand for 'K given' (kind 'in') or for the selector of K itself (kind 'get')"""
    out = {}
    for st in iter_stmts(fn.body):
        if isinstance(st, ast.Assign) and len(st.targets) == 1 and isinstance(st.targets[0], ast.Name):
            v = st.value
            if isinstance(v, ast.Compare) and len(v.ops) == 1 and isinstance(v.ops[0], ast.In) and const_str(v.left) \
                    and isinstance(v.comparators[0], ast.Name) and v.comparators[0].id in ('kwds', 'dimslices'):
                out[st.targets[0].id] = (const_str(v.left), 'in')
            if isinstance(v, ast.Call) and isinstance(v.func, ast.Attribute) and v.func.attr in ('get', 'pop') and isinstance(v.func.value, ast.Name) \
                    and v.func.value.id in ('kwds', 'dimslices') and v.args and const_str(v.args[0]):
                out[st.targets[0].id] = (const_str(v.args[0]), 'get')
    return out


def attr_stores(body, obj='outf'):
    out = {}
    for st in iter_stmts(body):
        tg = []
        if isinstance(st, ast.Assign):
            tg = st.targets
        elif isinstance(st, ast.AugAssign):
            tg = [st.target]
        for t in tg:
            if isinstance(t, ast.Attribute) and isinstance(t.value, ast.Name) and t.value.id == obj:
                out.setdefault(t.attr, []).append(st)
    return out


def run(ctx):
    for r, d in (('R-GEOHANDLERS', 'COL/ROW/LAY/TSTEP each have a handler storing XORIG / YORIG / VGLVLS / SDATE,STIME,TSTEP before updatemeta()'),
                 ('R-XYSYM', 'horizontal handlers mention only names of their own axis'),
                 ('R-ORIGINIDX', 'origin += arange(len(self.dimensions[D]))[kwds[D]].take(0) * cell'),
                 ('R-LAYGUARD', 'guard before the VGLVLS store is true for every selectable layer'),
                 ('R-LAYEDGES', 'edges = VGLVLS[lidx] + VGLVLS[lidx[-1] + 1]'),
                 ('R-TIMESRC', 'time attributes come from self.getTimes()[kwds[TSTEP]]')):
        ctx.rule(r, d)
    mod = ctx.src.mod(RP)
    fn = mod.func(Q)
    where = 'src/PseudoNetCDF/%s %s' % (RP, Q)
    # the closing updatemeta
    last_update = None
    for st in fn.body:
        if isinstance(st, ast.Expr) and isinstance(st.value, ast.Call) and dotted(st.value.func) == 'outf.updatemeta':
            last_update = st
    if last_update is None:
        raise AnalysisError('anchor vanished: closing outf.updatemeta() in ioapi_base.sliceDimensions')
    handlers = find_handlers(fn)
    kn = key_names(fn)
    handler_guard_rules(ctx, fn, handlers, kn)
    for dk, attrs in sorted(REQUIRED.items()):
        h = handlers.get(dk)
        if h is None:
            ctx.violation(Finding('R-GEOHANDLERS', RP, Q, 'handler for %s' % dk,
                                  'no branch guarded by %r in the selection keywords: %s is not adjusted when %s is subset'
                                  % (dk, '/'.join(attrs), dk), lineno=fn.lineno), oid=dk)
            continue
        stores = attr_stores(h.body)
        missing = [a for a in attrs if a not in stores]
        if h.lineno > last_update.lineno:
            ctx.violation(Finding('R-GEOHANDLERS', RP, Q, h, 'handler for %s runs after updatemeta()' % dk), oid=dk)
        elif missing:
            ctx.violation(Finding('R-GEOHANDLERS', RP, Q, h,
                                  'the %s handler does not store %s of the result' % (dk, missing)), oid=dk)
        else:
            ctx.ok('R-GEOHANDLERS', dk, where, '%s handler stores %s' % (dk, attrs))
    # ---- horizontal branches
    for dk in ('COL', 'ROW'):
        h = handlers.get(dk)
        if h is None:
            continue
        origin, cell = SLOTS[dk]
        other = AXIS_NAMES['ROW' if dk == 'COL' else 'COL']
        mentioned = set()
        for n in [x for part in [h.test] + h.body for x in ast.walk(part)]:
            if isinstance(n, ast.Constant) and isinstance(n.value, str):
                mentioned.add(n.value)
            if isinstance(n, ast.Attribute):
                mentioned.add(n.attr)
        # test part too
        foreign = sorted(mentioned & other)
        if foreign:
            ctx.violation(Finding('R-XYSYM', RP, Q, h,
                                  'the %s handler mentions %s, which belong to the other horizontal axis (copy-paste slip): '
                                  'the origin is shifted by the wrong length/selector/cell size' % (dk, foreign)), oid=dk)
        else:
            ctx.ok('R-XYSYM', dk, where, 'mentions only %s' % sorted(mentioned & AXIS_NAMES[dk]))
        # template: outf.<origin> += np.arange(n)[kwds[dk]].take(0) * outf.<cell>
        st = attr_stores(h.body).get(origin, [None])[0]
        okt = False
        why = 'no store to %s' % origin
        if st is not None:
            val = st.value
            if isinstance(st, ast.AugAssign) and isinstance(st.op, ast.Add):
                pass
            elif isinstance(st, ast.Assign) and isinstance(val, ast.BinOp) and isinstance(val.op, ast.Add) \
                    and norm(val.left).endswith('.' + origin):
                val = val.right
            else:
                val = None
                why = '%s is not advanced additively' % origin
            if val is not None and isinstance(val, ast.BinOp) and isinstance(val.op, ast.Mult):
                sides = [val.left, val.right]
                cellside = [s for s in sides if isinstance(s, ast.Attribute) and s.attr == cell]
                idxside = [s for s in sides if s not in cellside]
                if cellside and idxside:
                    ix = idxside[0]
                    txt = norm(ix)
                    # np.arange(N)[kwds['dk']].take(0)   (or [0] / .min())
                    ar = [c for c in walk_expr(ix) if isinstance(c, ast.Call) and (dotted(c.func) or '').endswith('arange')]
                    sel = [s for s in walk_expr(ix) if isinstance(s, ast.Subscript) and isinstance(s.value, ast.Name)
                           and s.value.id in ('kwds', 'dimslices') and const_str(s.slice) == dk]
                    if ar and sel and ('.take(0)' in txt or txt.endswith('[0]')):
                        n = ar[0].args[0] if ar[0].args else None
                        # resolve n to its definition inside the handler
                        ndef = norm(n) if n is not None else ''
                        if isinstance(n, ast.Name):
                            for s2 in iter_stmts(h.body):
                                if isinstance(s2, ast.Assign) and isinstance(s2.targets[0], ast.Name) and s2.targets[0].id == n.id:
                                    ndef = norm(s2.value)
                        if ndef == "len(self.dimensions['%s'])" % dk:
                            okt = True
                        else:
                            why = 'the index is resolved against %s instead of the source length len(self.dimensions[%r])' % (ndef, dk)
                    else:
                        why = 'index expression %s is not arange(n)[kwds[%r]].take(0)' % (txt[:60], dk)
                else:
                    why = 'shift is not <first index> * %s' % cell
            elif val is not None:
                why = 'shift is not a product index * cell'
        if okt:
            ctx.ok('R-ORIGINIDX', dk, where, '%s += arange(len(self.dimensions[%r]))[kwds[%r]].take(0) * %s' % (origin, dk, dk, cell))
        else:
            ctx.violation(Finding('R-ORIGINIDX', RP, Q, st if st is not None else h, '%s handler: %s' % (dk, why)), oid=dk)
    lay_rules(ctx, fn, handlers.get('LAY'), where)
    # ---- TSTEP branch
    h = handlers.get('TSTEP')
    if h is not None:
        stores = attr_stores(h.body)
        sd = stores.get('SDATE', [None])[0]
        # name from which SDATE is formatted
        src_name = None
        if sd is not None:
            for n in walk_expr(sd.value):
                if isinstance(n, ast.Call) and isinstance(n.func, ast.Attribute) and n.func.attr == 'strftime':
                    b = n.func.value
                    while isinstance(b, ast.Subscript):
                        b = b.value
                    if isinstance(b, ast.Name):
                        src_name = b.id
        d = None
        for s in iter_stmts(h.body):
            if isinstance(s, ast.Assign) and isinstance(s.targets[0], ast.Name) and s.targets[0].id == src_name:
                d = s
        if src_name is None or d is None:
            ctx.undec('R-TIMESRC', 'SDATE/STIME source', where, 'no SDATE store formatted from a times array (see R-GEOHANDLERS)')
            gt, sel = [], []
        else:
          gt = [c for c in walk_expr(d.value) if isinstance(c, ast.Call) and isinstance(c.func, ast.Attribute) and c.func.attr == 'getTimes']
          sel = [x for x in walk_expr(d.value) if isinstance(x, ast.Subscript) and isinstance(x.slice, ast.Subscript)
                 and isinstance(x.slice.value, ast.Name) and x.slice.value.id in ('kwds', 'dimslices') and const_str(x.slice.slice) == 'TSTEP']
        if src_name is None or d is None:
            pass
        elif gt and isinstance(gt[0].func.value, ast.Name) and gt[0].func.value.id == 'self' and sel \
                and sel[0].value is gt[0]:
            ctx.ok('R-TIMESRC', 'SDATE/STIME source', where, "%s = self.getTimes()[kwds['TSTEP']]" % src_name)
        elif gt and isinstance(gt[0].func.value, ast.Name) and gt[0].func.value.id != 'self':
            ctx.violation(Finding('R-TIMESRC', RP, Q, d,
                                  'the new start date/time is read with %s.getTimes() while the time attributes of the result '
                                  'are still the stale copies of the source: for a file without a TFLAG variable the window '
                                  'keeps the source start time' % gt[0].func.value.id))
        else:
            ctx.undec('R-TIMESRC', norm(d)[:70], where, 'source of the new start time not recognised')
    # ---- wrapper classification of selector kinds agrees with the base method (numpy integers are integers)
    from . import c02
    ctx.rule('R-KINDS', 'the wrapper classifies selector kinds (int, numpy int, slice, sequence) exactly like the base method')
    isarr = None
    for st in iter_stmts(fn.body):
        if isinstance(st, ast.Assign) and norm(st.targets[0]) == 'isarray' and isinstance(st.value, ast.DictComp):
            isarr = st.value
    if isarr is None:
        ctx.undec('R-KINDS', 'isarray', where, 'wrapper has no kind classification')
    else:
        v = isarr.generators[0].target.elts[1].id
        part = dict((k, c02.abs_pred(isarr.value, k, v)) for k in c02.KINDS)
        if None in part.values():
            ctx.undec('R-KINDS', 'isarray', where, 'predicate not understood: %s' % norm(isarr.value))
        elif part == {'INT': False, 'NPINT': False, 'SLICE': False, 'SEQ': True}:
            ctx.ok('R-KINDS', 'isarray', where, 'int/numpy int/slice are not arrays; sequences are')
        else:
            ctx.violation(Finding('R-KINDS', RP, Q, api.stmt_of(isarr), 'the wrapper classifies selector kinds as %s: a numpy integer (or other scalar) is treated as an index array, so with ROW and COL '
                                  'both given that way the origin update is skipped and the dimensions are deleted' % part))
    # ---- the step encoded into TSTEP: HHMMSS = hours*10000 + minutes*100 + seconds
    ctx.rule('R-HMSENC', 'a time built arithmetically from seconds is hours*10000 + minutes*100 + seconds')
    for st in iter_stmts(fn.body):
        if isinstance(st, ast.Assign) and isinstance(st.targets[0], ast.Attribute) and st.targets[0].attr in ('TSTEP', 'STIME', 'ETIME') \
                and isinstance(st.value, ast.Call) and dotted(st.value.func) == 'int' and "strftime('%H%M%S')" in norm(st.value):
            ctx.ok('R-HMSENC', norm(st)[:60], where, "HHMMSS text from strftime('%H%M%S')")
        if isinstance(st, ast.Assign) and isinstance(st.targets[0], ast.Attribute) and st.targets[0].attr in ('TSTEP', 'STIME', 'ETIME') \
                and isinstance(st.value, ast.BinOp) and isinstance(st.value.op, ast.Add):
            terms = []
            def flat(e):
                if isinstance(e, ast.BinOp) and isinstance(e.op, ast.Add):
                    flat(e.left); flat(e.right)
                else:
                    terms.append(e)
            flat(st.value)
            bad = []
            for t_ in terms:
                tx = norm(t_).replace('(', '').replace(')', '')
                unit = 'h' if '// 3600' in tx else ('m' if ('% 3600 // 60' in tx or '// 60 % 60' in tx) else ('s' if '% 60' in tx else None))
                mult = 1
                if isinstance(t_, ast.BinOp) and isinstance(t_.op, ast.Mult) and isinstance(t_.right, ast.Constant):
                    mult = t_.right.value
                want = {'h': 10000, 'm': 100, 's': 1}.get(unit)
                if unit is None:
                    bad = None
                    break
                if mult != want:
                    bad.append((tx, unit, mult, want))
            if bad is None:
                ctx.undec('R-HMSENC', norm(st)[:60], where, 'terms not recognised as hour/minute/second parts')
            elif bad:
                ctx.violation(Finding('R-HMSENC', RP, Q, st, 'the %s part (%s) is multiplied by %s instead of %s: a step with minutes is written as a wrong HHMMSS value' % (
                    {'h': 'hours', 'm': 'minutes', 's': 'seconds'}[bad[0][1]], bad[0][0], bad[0][2], bad[0][3])))
            else:
                ctx.ok('R-HMSENC', norm(st)[:60], where, 'hours*10000 + minutes*100 + seconds')
    if not any(o.get('rule') == 'R-GEOHANDLERS' and o.get('status') == 'violated' for o in ctx.obligations):
        ctx.floor('georeferencing handlers', len(handlers), 4)
    ctx.assumptions.append('np.arange(n)[selector] resolves negative integers and slices against length n (numpy indexing)')


def handler_guard_rules(ctx, fn, handlers, kn):
    # a handler must run whenever its dimension is selected: not under the truth value of the selector (0 is a layer), and not as an
    # alternative (elif) of the handler of another dimension
    for dk, h in sorted(handlers.items()):
        t = h.test
        bare = [n for n in ast.walk(t) if isinstance(n, ast.Name) and n.id in kn and kn[n.id] == (dk, 'get')]
        truthy = [n for n in bare if not any(isinstance(p, ast.Compare) and n in list(ast.walk(p)) for p in ast.walk(t))]
        if truthy:
            ctx.violation(Finding('R-GEOHANDLERS', RP, Q, h, 'the %s handler runs only when the selector itself is truthy (%s): the integer 0 - the first layer/row/column/step - is a valid '
                                  'selection and is skipped, so %s keep the source values' % (dk, norm(t)[:40], '/'.join(REQUIRED[dk]))), oid=dk + ':truthy')
        par = getattr(h, '_parent', None)
        if isinstance(par, ast.If) and h in par.orelse:
            others = [k for k in key_tests(par.test, kn) if k != dk and k in REQUIRED]
            deleting = any(isinstance(s2, ast.Delete) for s2 in par.body)
            if others and not deleting:
                ctx.violation(Finding('R-GEOHANDLERS', RP, Q, h, 'the %s handler is an alternative (elif) of the %s handler: when both dimensions are selected in one call only the first runs and %s '
                                      'keep the source values' % (dk, others[0], '/'.join(REQUIRED[dk]))), oid=dk + ':elif')


def find_handlers(fn):
    """first If per dimension whose test depends on that dimension being selected *and* whose body stores one of its attributes"""
    handlers = {}
    kn = key_names(fn)
    for st in iter_stmts(fn.body):
        if isinstance(st, ast.If):
            for k in key_tests(st.test, kn):
                if k in REQUIRED and k not in handlers:
                    if any(a in attr_stores(st.body) for a in REQUIRED[k]) or not kn:
                        handlers[k] = st
    return handlers


def lay_rules(ctx, fn, h, where):
    if h is not None:
        stores = attr_stores(h.body).get('VGLVLS', [])
        env = {}
        lidx_bound = None
        for s in iter_stmts(h.body):
            if isinstance(s, ast.Assign) and isinstance(s.targets[0], ast.Name):
                nm = s.targets[0].id
                txt = norm(s.value)
                if nm == 'lidx' or 'arange' in txt:
                    ar = [c for c in walk_expr(s.value) if isinstance(c, ast.Call) and (dotted(c.func) or '').endswith('arange')]
                    sel = [x for x in walk_expr(s.value) if isinstance(x, ast.Subscript) and isinstance(x.value, ast.Name)
                           and x.value.id in ('kwds', 'dimslices') and const_str(x.slice) == 'LAY']
                    kn_ = key_names(fn)
                    sel += [x for x in walk_expr(s.value) if isinstance(x, ast.Name) and kn_.get(x.id) == ('LAY', 'get')]
                    if ar and sel and ar[0].args:
                        lidx_name = nm
                        lidx_bound = to_poly(ar[0].args[0], env, atomize=_atom)
                else:
                    env[nm] = to_poly(s.value, env, atomize=_atom)
        if lidx_bound is None and stores:
            # every definition of the index that subscripts VGLVLS must be normalised against the layer count
            ldefs = [s2 for s2 in iter_stmts(h.body) if isinstance(s2, ast.Assign) and isinstance(s2.targets[0], ast.Name) and s2.targets[0].id == 'lidx']
            raw = [d for d in ldefs if not any(tok in norm(d.value) for tok in ('arange(', '.indices(', ' % ', 'np.where(', 'range('))]
            if ldefs and raw:
                ctx.rule('R-LAYNORM', 'the layer selector is resolved against the number of layers before it indexes the (one longer) edge array')
                ctx.violation(Finding('R-LAYNORM', RP, Q, raw[0], 'the layer selector is used as given (%s): a negative integer then indexes VGLVLS, which has one more entry than '
                                      'there are layers, from its end, and the window gets the edges of another layer' % norm(raw[0])[:60]))
                return
        if lidx_bound is None or not stores:
            raise AnalysisError('construct not understood: LAY handler of ioapi_base.sliceDimensions')
        st = stores[0]
        # guards between the handler and the store
        guards = []
        p = getattr(st, '_parent', None)
        child = st
        while p is not None and p is not h:
            if isinstance(p, ast.If) and child in list(iter_stmts(p.body)):
                guards.append(p)
            child = p
            p = getattr(p, '_parent', None)
        okg = True
        for g in guards:
            t = g.test
            good = False
            if isinstance(t, ast.Compare) and len(t.ops) == 1 and norm(t.left) == '%s[-1]' % lidx_name:
                rhs = to_poly(t.comparators[0], env, atomize=_atom)
                diff = rhs - lidx_bound        # selectable indices are 0 .. bound-1
                c = diff.constval()
                if c is not None:
                    if isinstance(t.ops[0], ast.Lt) and c >= 0:
                        good = True
                    if isinstance(t.ops[0], ast.LtE) and c >= -1:
                        good = True
                    if not good:
                        ctx.violation(Finding('R-LAYGUARD', RP, Q, 'if ' + norm(t),
                                              'layers 0..(%s)-1 can be selected, but the VGLVLS store is skipped when the last '
                                              'selected layer is >= %s: a window that reaches the top layer keeps the full source '
                                              'level list (VGLVLS no longer has NLAYS+1 entries)' % (lidx_bound, rhs), lineno=g.lineno))
                        okg = False
                        continue
            if not good:
                ctx.undec('R-LAYGUARD', norm(t)[:60], where, 'guard not understood by the size algebra')
                okg = None
        if okg:
            ctx.ok('R-LAYGUARD', 'VGLVLS store', where, '%d guard(s), each true for every index below %s' % (len(guards), lidx_bound))
        # edges template
        txt = ' ; '.join(norm(s) for s in iter_stmts(h.body))
        sel_ok = 'outf.VGLVLS[%s]' % lidx_name in txt
        end_ok = 'outf.VGLVLS[%s[-1] + 1]' % lidx_name in txt and 'np.append(' in txt
        if sel_ok and end_ok and lidx_bound == to_poly(ast.parse('outf.VGLVLS.size - 1').body[0].value, {}, atomize=_atom):
            ctx.ok('R-LAYEDGES', 'VGLVLS', where, 'VGLVLS[lidx] appended with VGLVLS[lidx[-1] + 1]; lidx drawn from arange(VGLVLS.size - 1)')
        else:
            ctx.violation(Finding('R-LAYEDGES', RP, Q, st, 'new level edges are not VGLVLS[lidx] + VGLVLS[lidx[-1] + 1] with lidx '
                                  'an index into the layers (arange(VGLVLS.size - 1))'))


def _atom(n):
    t = norm(n)
    if t in ('outf.VGLVLS.size', 'len(outf.VGLVLS)', 'outf.VGLVLS.shape[0]'):
        return 'S'
    return None
