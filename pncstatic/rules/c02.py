"""C02 - dimension slicing selects the requested hyperslab: the orthogonality precondition.

R-ADVIDX    abstract interpretation over selector kinds {INT, SLICE, SEQ}: at every numpy subscript of
            sliceDimensions the reachable kind multisets never combine an arbitrary-length sequence with another
            numpy-advanced index (the only way numpy transposes/broadcasts a per-axis selection).
R-MASKKEEP  no mask-dropping conversion between the selected values and the store into the result variable.
R-ATTRCARRY variable attributes are copied to the result variable.
R-TFLAGKEEP the IOAPI wrapper does not regenerate the time-flag variable that the base slicing selected.
"""
import ast
import itertools

from ..engine import AnalysisError, dotted, iter_stmts, norm, walk_expr, const_str, kw, parent_chain
from ..report import Finding
from .. import api
from .c06 import drops_mask

LEVEL_TEXT = (
    "Static abstract interpretation over the finite selector-kind domain {integer, slice, sequence} (ast): the code's own "
    "classification predicate and selector rewrites are evaluated per kind, branch guards give the kind multisets that can "
    "reach each numpy subscript, and numpy's indexing rule (trusted fact) decides whether a sequence can meet another advanced "
    "index there; plus mask/attribute carry-over and time-flag preservation lints. Value equality with a per-axis take for "
    "every selector, and keyword-order independence, are not decided.")

RP = 'core/_files.py'
Q = 'PseudoNetCDFFile.sliceDimensions'
KINDS = ('INT', 'NPINT', 'SLICE', 'SEQ')   # INT: Python int, NPINT: numpy integer scalar (np.int64 ...)


def abs_pred(e, kind, var):
    """abstract truth of a predicate on selector *var* of the given kind; None if not understood"""
    if isinstance(e, ast.BoolOp):
        vals = [abs_pred(x, kind, var) for x in e.values]
        if None in vals:
            return None
        return all(vals) if isinstance(e.op, ast.And) else any(vals)
    if isinstance(e, ast.UnaryOp) and isinstance(e.op, ast.Not):
        v = abs_pred(e.operand, kind, var)
        return None if v is None else not v
    if isinstance(e, ast.Call):
        d = dotted(e.func)
        if d in ('np.isscalar', 'isscalar', 'numpy.isscalar') and e.args and isinstance(e.args[0], ast.Name) and e.args[0].id == var:
            return kind in ('INT', 'NPINT')   # numpy fact: isscalar is True for Python/numpy numbers, False for slices and sequences
        if d == 'isinstance' and len(e.args) == 2 and isinstance(e.args[0], ast.Name) and e.args[0].id == var:
            types = [norm(t) for t in (e.args[1].elts if isinstance(e.args[1], ast.Tuple) else [e.args[1]])]
            table = {'slice': ('SLICE',), 'int': ('INT',), 'np.integer': ('NPINT',), 'numbers.Integral': ('INT', 'NPINT'),
                     'list': ('SEQ',), 'tuple': ('SEQ',), 'np.ndarray': ('SEQ',)}     # Python/numpy facts: np.int64 is not an int subclass
            if all(t in table for t in types):
                return any(kind in table[t] for t in types)
    return None


def abs_rewrite(e, kind, var):
    """kind of the rewritten selector expression e (in terms of selector *var* of kind *kind*)"""
    if isinstance(e, ast.Name) and e.id == var:
        return {'SEQ': 'SEQn', 'NPINT': 'INT'}.get(kind, kind)
    if isinstance(e, ast.IfExp):
        t = abs_pred(e.test, kind, var)
        if t is None:
            return None
        return abs_rewrite(e.body if t else e.orelse, kind, var)
    if isinstance(e, ast.Call) and dotted(e.func) == 'slice':
        return 'SLICE'
    if isinstance(e, ast.List) and len(e.elts) == 1:
        return 'SEQ1'
    if isinstance(e, ast.Subscript) and isinstance(e.value, ast.Call) and isinstance(e.value.func, ast.Attribute) \
            and e.value.func.attr in ('ravel', 'flatten') and isinstance(e.value.func.value, ast.Name) and e.value.func.value.id == var:
        return 'INT'                      # one element of the sequence
    if isinstance(e, ast.Call) and dotted(e.func) in ('np.asarray', 'np.array') and e.args and isinstance(e.args[0], ast.Name) and e.args[0].id == var:
        return {'SEQ': 'SEQn', 'NPINT': 'INT'}.get(kind, kind)
    return None


def hazards(rewrite, seq_constraint, maxrank=4):
    """enumerate kind multisets (rank <= maxrank) allowed by the constraint on the number of SEQ selectors and
    return those whose rewritten index tuple has an arbitrary-length sequence plus another advanced index"""
    bad = []
    n = 0
    for rank in range(1, maxrank + 1):
        for combo in itertools.combinations_with_replacement(KINDS, rank):
            nseq = combo.count('SEQ')
            if not seq_constraint(nseq):
                continue
            n += 1
            out = [rewrite[k] for k in combo]
            adv = sum(1 for k in out if k in ('INT', 'SEQ1', 'SEQn'))
            if 'SEQn' in out and adv >= 2:
                bad.append((combo, out))
    return n, bad


def _const_eval(e, env):
    """evaluate an integer expression on constants (the checker's own model; no repository code runs)"""
    if isinstance(e, ast.Constant):
        return e.value
    if isinstance(e, ast.Name):
        return env.get(e.id, 'UNK')
    if isinstance(e, ast.BinOp):
        a, b = _const_eval(e.left, env), _const_eval(e.right, env)
        if 'UNK' in (a, b):
            return 'UNK'
        if isinstance(e.op, ast.Add):
            return a + b
        if isinstance(e.op, ast.Sub):
            return a - b
        return 'UNK'
    if isinstance(e, ast.BoolOp):
        vals = [_const_eval(x, env) for x in e.values]
        if 'UNK' in vals:
            return 'UNK'
        out = vals[0]
        for v in vals[1:]:
            out = (out or v) if isinstance(e.op, ast.Or) else (out and v)
        return out
    if isinstance(e, ast.IfExp):
        t = _const_eval(e.test, env)
        if t == 'UNK':
            return 'UNK'
        return _const_eval(e.body if t else e.orelse, env)
    if isinstance(e, ast.Compare) and len(e.ops) == 1:
        a, b = _const_eval(e.left, env), _const_eval(e.comparators[0], env)
        if 'UNK' in (a, b):
            return 'UNK'
        op = e.ops[0]
        return {ast.Eq: a == b, ast.NotEq: a != b, ast.Lt: a < b, ast.LtE: a <= b, ast.Gt: a > b, ast.GtE: a >= b}.get(type(op), 'UNK')
    if isinstance(e, ast.UnaryOp) and isinstance(e.op, ast.USub):
        v = _const_eval(e.operand, env)
        return 'UNK' if v == 'UNK' else -v
    return 'UNK'


def check_zip_axis(ctx, fn, where, rule='R-ZIPAXIS'):
    """zipped selection: the new dimension goes where the first list-selected axis of *the variable* was.  The position therefore has
    to be derived from a sequence in the order of the variable's dimensions; one derived from the selector dict follows the order in
    which the caller happened to write the keywords."""
    ctx.rule(rule, "zipped selection: the position of the new dimension is derived in the order of the variable's dimensions, not of the keywords")
    defs = [st for st in iter_stmts(fn.body) if isinstance(st, ast.Assign) and isinstance(st.targets[0], ast.Name) and st.targets[0].id == 'concatax']
    if not defs:
        ctx.undec(rule, 'concatax', where, 'position of the new dimension (concatax) not found')
        return
    st = defs[0]
    # the variable's dimension tuple: the name the per-dimension classification iterates
    seen, work, gens = set(), [st.value], []
    while work:
        e = work.pop()
        for n_ in ast.walk(e):
            if isinstance(n_, ast.comprehension):
                gens.append(n_)
            if isinstance(n_, ast.Name) and isinstance(n_.ctx, ast.Load) and n_.id not in seen:
                seen.add(n_.id)
                for d_ in iter_stmts(fn.body):
                    if isinstance(d_, ast.Assign) and isinstance(d_.targets[0], ast.Name) and d_.targets[0].id == n_.id and d_.lineno < st.lineno \
                            and isinstance(d_.value, (ast.ListComp, ast.GeneratorExp, ast.Call, ast.Subscript)):
                        work.append(d_.value)
    keyorder = [g for g in gens if any(isinstance(c, ast.Call) and isinstance(c.func, ast.Attribute) and c.func.attr in ('items', 'keys') for c in ast.walk(g.iter))
                or (isinstance(g.iter, ast.Name) and g.iter.id in ('isarray', 'kwds', 'dimslices'))]
    dimorder = [g for g in gens if isinstance(g.iter, ast.Name) and 'dims' in g.iter.id or '.dimensions' in norm(g.iter)]
    if keyorder:
        ctx.violation(Finding(rule, RP, Q, st, 'the position of the new dimension is computed from %s, whose order is that of the keywords in the call: sliceDimensions(lat=[..], time=[..]) on a '
                              '(time, lev, lat, lon) variable puts the new dimension where lat was instead of where time was' % norm(keyorder[0].iter)))
    elif dimorder:
        ctx.ok(rule, 'concatax', where, "derived from %s in the order of the variable's dimensions" % norm(dimorder[0].iter))
    else:
        ctx.undec(rule, 'concatax', where, 'derivation of %s not traced' % norm(st.value)[:50])


def check_fill_lookup(ctx, rule='R-FILLLOOK'):
    """copyVariable finds the fill value of the source among fill_value / missing_value / _FillValue.  A masked array carries
    fill_value as a plain python attribute, not as a declared netCDF attribute: the lookup has to be by attribute access; restricting
    it to ncattrs() creates a plain output variable for a masked source and the copy writes the data under the mask."""
    from .. import paths as _paths
    ctx.rule(rule, 'copyVariable: the fill value of the source is looked up by attribute access, not only among its declared netCDF attributes')
    fm = ctx.src.mod(RP)
    cv = fm.func('PseudoNetCDFFile.copyVariable')
    where = 'src/PseudoNetCDF/%s PseudoNetCDFFile.copyVariable' % RP
    loops = [l_ for l_ in ast.walk(cv) if isinstance(l_, ast.For) and isinstance(l_.iter, (ast.Tuple, ast.List)) and any(const_str(e) == 'fill_value' for e in l_.iter.elts)]
    if not loops:
        ctx.undec(rule, 'lookup', where, 'lookup loop over the fill attribute names not found')
        return
    lp = loops[0]
    bad, n = None, 0
    for pth in _paths.enumerate_paths(lp.body, limit=2000):
        stores = [st for st in pth.stmts if isinstance(st, ast.Assign) and norm(st.targets[0]) == 'fill_value']
        if not stores:
            continue
        n += 1
        for it in pth.items:
            if it[0] == 'cond' and it[2] is True and 'ncattrs' in norm(it[1]):
                bad = bad or (it[1], stores[0])
    if bad:
        ctx.violation(Finding(rule, RP, 'PseudoNetCDFFile.copyVariable', bad[1], 'the fill value is taken only when %s: a masked source without a declared fill attribute (the result of a value mask, a '
                              'variable built from a masked array) yields a plain output variable and its mask is lost in every slice/copy' % norm(bad[0])))
    elif n:
        ctx.ok(rule, 'lookup', where, '%d storing paths, none restricted to ncattrs()' % n)
    else:
        ctx.undec(rule, 'lookup', where, 'no path stores fill_value')


def run(ctx):
    for r, d in (('R-ADVIDX', 'no subscript combines an arbitrary-length sequence with another numpy-advanced index'),
                 ('R-MASKKEEP', 'selected values reach the result variable without a mask-dropping conversion'),
                 ('R-ATTRCARRY', 'variable attributes copied to the result variable'),
                 ('R-TFLAGKEEP', 'IOAPI wrapper keeps the time flags selected by the base slicing')):
        ctx.rule(r, d)
    from .. import lints as _l
    ctx.rule('R-FUZZYDIM', "slice_dim: a request for dimension D is extended only to the companion dimensions named 'D<digits>'")
    ctx.floor('companion conditions judged by R-FUZZYDIM', _l.fuzzy_companions(ctx, 'R-FUZZYDIM', 'core/_functions.py', 'slice_dim'), 1)
    mod = ctx.src.mod(RP)
    fn = mod.func(Q)
    where = 'src/PseudoNetCDF/%s %s' % (RP, Q)
    check_zip_axis(ctx, fn, where)
    check_fill_lookup(ctx)
    # 1. the classification predicate
    isarr = None
    for st in iter_stmts(fn.body):
        if isinstance(st, ast.Assign) and norm(st.targets[0]) == 'isarray' and isinstance(st.value, ast.DictComp):
            isarr = st.value
    if isarr is None:
        raise AnalysisError('construct not understood: selector classification (isarray) in sliceDimensions')
    selvar = isarr.generators[0].target.elts[1].id if isinstance(isarr.generators[0].target, ast.Tuple) else None
    part = {}
    for k in KINDS:
        v = abs_pred(isarr.value, k, selvar)
        if v is None:
            raise AnalysisError('construct not understood: classification predicate %s' % norm(isarr.value))
        part[k] = v
    if part != {'INT': False, 'NPINT': False, 'SLICE': False, 'SEQ': True}:
        ctx.violation(Finding('R-ADVIDX', RP, Q, api.stmt_of(isarr), 'the selector classification %s treats kinds as %s: index sequences must be the only "array" kind' % (norm(isarr.value), part)))
    else:
        ctx.ok('R-ADVIDX', 'classification', where, 'isarray: int False, numpy int False, slice False, sequence True')
    # 1b. the pointwise machinery (new POINTS dimension ...) is set up only for two or more index sequences: one sequence is an
    # ordinary orthogonal selection
    from .. import consteval as _ce0
    aia = [st for st in iter_stmts(fn.body) if isinstance(st, ast.Assign) and isinstance(st.targets[0], ast.Name) and st.targets[0].id == 'anyisarray']
    for st in aia[:1]:
        verdicts = []
        for isa, want in (({'a': True, 'b': False}, False), ({'a': True, 'b': True}, True), ({'a': False, 'b': False}, False), ({'a': True, 'b': True, 'c': True}, True), ({}, False)):
            got = _ce0.ev(st.value, {'isarray': isa})
            verdicts.append(None if got is _ce0.UNK else (bool(got) == want))
        if None in verdicts:
            ctx.undec('R-ADVIDX', 'anyisarray', where, 'definition outside the evaluated fragment: %s' % norm(st.value)[:60])
        elif all(verdicts):
            ctx.ok('R-ADVIDX', 'anyisarray', where, 'true exactly for two or more index sequences (5 cases)')
        else:
            ctx.violation(Finding('R-ADVIDX', RP, Q, st, '%s is also true for a single index sequence: an orthogonal selection with one list then gets the dimension of a pointwise selection '
                                  '(an unused POINTS dimension as long as the list), and pieces cut that way no longer stack back to the original dimensions' % norm(st)))
    # 2. the fancy/non-fancy branch on "anyisarray and needsfancy"
    t = norm(fn)
    # the test with temporaries substituted (paths.dominating_env): "two or more index sequences in the call, and two or more among
    # this variable's dimensions", however the two counts are named
    import re as _re
    from .. import paths as _paths
    branch = None
    for st in iter_stmts(fn.body):
        if isinstance(st, ast.If) and any(isinstance(n, ast.Subscript) and isinstance(n.value, ast.Name) and n.value.id == 'varo'
                                          for s2 in iter_stmts(st.body) for n in walk_expr(s2)):
            test = _paths.subst(st.test, _paths.dominating_env(fn, st, keep=('isarray', 'varo', 'sliceo', 'vdims')))
            parts = test.values if isinstance(test, ast.BoolOp) and isinstance(test.op, ast.And) else [test]
            if len(parts) == 2 and norm(parts[0]) in ('np.sum(list(isarray.values())) > 1', 'sum(isarray.values()) > 1', 'sum(list(isarray.values())) > 1') and \
                    _re.match(r"^sum\(\[isarray\.get\((\w+), False\) for \1 in [\w\.]+\]\) > 1$", norm(parts[1])):
                branch = st
    if branch is None:
        # not the known spelling: decide the test by evaluating it (finite case analysis).  The pointwise branch is needed exactly for a
        # variable that holds two or more of the list-selected dimensions - numpy would zip their lists in one subscript
        from .. import consteval as _ce
        cases = [({'a': True, 'b': True, 'c': True}, ('a', 'b', 'c'), True), ({'a': True, 'b': True, 'c': True}, ('a', 'b'), True), ({'a': True, 'b': True, 'c': True}, ('t', 'b', 'c'), True),
                 ({'a': True, 'b': True, 'c': True}, ('a',), False), ({'a': True, 'b': True, 'c': True}, ('t',), False), ({'a': True, 'b': True}, ('a', 'b'), True),
                 ({'a': True, 'b': True}, ('t', 'a'), False), ({'a': True, 'b': False}, ('a', 'b'), False), ({'a': True, 'b': True, 't': False}, ('t', 'a', 'b'), True)]
        for st in iter_stmts(fn.body):
            if isinstance(st, ast.If) and any(isinstance(n, ast.Subscript) and isinstance(n.value, ast.Name) and n.value.id == 'varo'
                                              for s2 in iter_stmts(st.body) for n in walk_expr(s2)):
                test = _paths.subst(st.test, _paths.dominating_env(fn, st, keep=('isarray', 'varo', 'sliceo', 'vdims')))
                wrong = unk = None
                for isa, vd, want in cases:
                    def hook(n, isa=isa, vd=vd):
                        if norm(n) in ('varo.dimensions', 'vdims', 'tuple(varo.dimensions)'):
                            return vd
                        return None
                    got = _ce.ev(test, {'isarray': isa, 'vdims': vd}, hook)
                    if got is _ce.UNK:
                        unk = (isa, vd)
                        break
                    if bool(got) != want:
                        wrong = wrong or (isa, vd, bool(got))
                if unk is None and wrong is None:
                    branch = st
                elif unk is None:
                    ctx.violation(Finding('R-ADVIDX', RP, Q, st, 'with index lists on %s a variable with dimensions %s takes the %s branch: %s' % (
                        sorted(k for k, v in wrong[0].items() if v), wrong[1], 'pointwise' if wrong[2] else 'plain',
                        'numpy zips the lists of one subscript, so the block comes out with shape (n,) and is broadcast into the (n, n) variable that was prepared for it'
                        if not wrong[2] else 'a variable with one listed dimension is gathered point by point')))
                    return
    if branch is None:
        raise AnalysisError('construct not understood: fancy / plain branches of sliceDimensions')

    def sites(stmts):
        return [n for s2 in iter_stmts(stmts) for n in walk_expr(s2)
                if isinstance(n, ast.Subscript) and isinstance(n.value, ast.Name) and n.value.id == 'varo' and isinstance(n.ctx, ast.Load)]

    def rewrite_of(idx, stmts, seqname='sliceo', depth=0):
        """kind -> kind map of how index tuple *idx* (a Name) is built from the per-axis selectors in *stmts*"""
        # form D: the tuple is built by a module-level helper that receives the selector list: analysed in the helper's body
        if isinstance(idx, ast.Call) and isinstance(idx.func, ast.Name) and idx.func.id in mod.functions and depth < 2:
            callee = mod.functions[idx.func.id]
            pos = [i for i, a_ in enumerate(idx.args) if isinstance(a_, ast.Name) and a_.id == seqname]
            rets = [s2 for s2 in iter_stmts(callee.body) if isinstance(s2, ast.Return) and s2.value is not None]
            if len(pos) == 1 and len(rets) == 1 and pos[0] < len(callee.args.args):
                return rewrite_of(rets[0].value, callee.body, seqname=callee.args.args[pos[0]].arg, depth=depth + 1)
            return None
        if not isinstance(idx, ast.Name):
            # inline generator/tuple expression
            gen = idx
        else:
            gen = None
            defs = [s2 for s2 in iter_stmts(stmts) if isinstance(s2, ast.Assign) and norm(s2.targets[0]) == idx.id]
            if defs:
                gen = defs[0].value
        # form A: tuple(<expr of si> for si in sliceo)
        if isinstance(gen, ast.Call) and dotted(gen.func) == 'tuple' and gen.args and isinstance(gen.args[0], (ast.GeneratorExp, ast.ListComp)):
            g = gen.args[0]
            if isinstance(g.generators[0].iter, ast.Name) and g.generators[0].iter.id == seqname and isinstance(g.generators[0].target, ast.Name):
                v = g.generators[0].target.id
                return dict((k, abs_rewrite(g.elt, k, v)) for k in KINDS)
            # tuple(sliceoi) after an append loop: fall through to form B on the inner name
            if isinstance(gen.args[0], ast.Name):
                idx = gen.args[0]
        if isinstance(gen, ast.Call) and dotted(gen.func) == 'tuple' and gen.args and isinstance(gen.args[0], ast.Name):
            idx = gen.args[0]
        # form B: for si in sliceo: if P1: L.append(E1) elif P2: L.append(E2) else: L.append(E3)
        if isinstance(idx, ast.Name):
            for lp in iter_stmts(stmts):
                if isinstance(lp, ast.For) and isinstance(lp.iter, ast.Name) and lp.iter.id == seqname and isinstance(lp.target, ast.Name):
                    v = lp.target.id
                    out = {}
                    for k in KINDS:
                        node = lp.body[0] if lp.body else None
                        res = None
                        while isinstance(node, ast.If):
                            tv = abs_pred(node.test, k, v)
                            if tv is None:
                                return None
                            body = node.body if tv else node.orelse
                            if tv or not (len(body) == 1 and isinstance(body[0], ast.If)):
                                apps = [c for s3 in body for c in walk_expr(s3) if isinstance(c, ast.Call) and isinstance(c.func, ast.Attribute) and c.func.attr == 'append']
                                res = abs_rewrite(apps[0].args[0], k, v) if apps else None
                                if not apps:
                                    # the branch only chooses the element (X = E); one append(X) follows the chain
                                    asg = [s3 for s3 in body if isinstance(s3, ast.Assign) and len(s3.targets) == 1 and isinstance(s3.targets[0], ast.Name)]
                                    tail = [c for s3 in lp.body[1:] for c in walk_expr(s3) if isinstance(c, ast.Call) and isinstance(c.func, ast.Attribute) and c.func.attr == 'append'
                                            and len(c.args) == 1 and isinstance(c.args[0], ast.Name)]
                                    if len(asg) == 1 and len(tail) == 1 and tail[0].args[0].id == asg[0].targets[0].id:
                                        res = abs_rewrite(asg[0].value, k, v)
                                break
                            node = body[0]
                        out[k] = res
                    return out
        # form C: the selector tuple itself
        if isinstance(idx, ast.Name) and idx.id == seqname:
            return dict((k, {'SEQ': 'SEQn', 'NPINT': 'INT'}.get(k, k)) for k in KINDS)
        return None
    nsites = 0
    for label, stmts, constraint, ctext in (('zipped (fancy) branch', branch.body, lambda n: n >= 2, 'two or more sequences'),
                                            ('plain branch', branch.orelse, lambda n: n <= 1, 'at most one sequence')):
        for s_ in sites(stmts):
            nsites += 1
            rw = rewrite_of(s_.slice, stmts)
            oid = '%s: %s' % (label, norm(s_)[:40])
            if rw is None or None in rw.values():
                raise AnalysisError('construct not understood: how %s is built (%s)' % (norm(s_.slice), rw))
            n, bad = hazards(rw, constraint)
            if bad:
                ex = bad[0]
                ctx.violation(Finding('R-ADVIDX', RP, Q, api.stmt_of(s_),
                                      'with %s among the selectors of a variable, the index tuple at %s can be %s (from selector kinds %s): '
                                      'numpy broadcasts the advanced indices together and moves that axis, so the selection is not the '
                                      'per-axis (orthogonal / zipped-in-place) one and the reshape fallback hides it' % (ctext, norm(s_)[:40], ex[1], ex[0])), oid=oid)
            else:
                ctx.ok('R-ADVIDX', oid, where, 'selector rewrite %s; %d kind multisets (rank<=4, %s) all free of sequence+advanced combinations' % (rw, n, ctext))
    ctx.floor('numpy subscripts of the sliced variable', nsites, 2)
    # 3. value path: newvals -> newvaro[...]
    stores = [st for st in iter_stmts(fn.body) if isinstance(st, ast.Assign) and norm(st.targets[0]) == 'newvaro[...]']
    if not stores:
        raise AnalysisError('anchor vanished: store into newvaro[...]')
    badm = None
    for st in stores:
        d = drops_mask(st.value)
        if d is not None:
            badm = (st, d)
    for st in iter_stmts(fn.body):
        if isinstance(st, ast.Assign) and norm(st.targets[0]) == 'newvals':
            d = drops_mask(st.value)
            if d is not None:
                badm = (st, d)
            # joining the selected points: numpy.concatenate returns a plain ndarray for masked inputs (frozen numpy fact)
            for c in walk_expr(st.value):
                if isinstance(c, ast.Call) and dotted(c.func) in ('np.concatenate', 'numpy.concatenate', 'np.stack', 'np.vstack', 'np.hstack'):
                    badm = (st, c.func)
    if badm:
        ctx.violation(Finding('R-MASKKEEP', RP, Q, badm[0], 'the selected values pass through %s before they are stored: masked cells of the selection come back unmasked' % norm(badm[1])[:50]))
    else:
        ctx.ok('R-MASKKEEP', 'newvals -> newvaro', where, '%d stores, no mask-dropping conversion' % len(stores))
    if "for pk in varo.ncattrs(): setattr(newvaro, pk, getattr(varo, pk))" in t:
        ctx.ok('R-ATTRCARRY', 'variable attributes', where, 'copied by name')
    else:
        ctx.violation(Finding('R-ATTRCARRY', RP, Q, fn.body[-1], 'variable attributes are no longer copied to the sliced variable'))
    # 4. IOAPI wrapper
    io = ctx.src.mod('cmaqfiles/_ioapi.py')
    wf = io.func('ioapi_base.sliceDimensions')
    w2 = 'src/PseudoNetCDF/cmaqfiles/_ioapi.py ioapi_base.sliceDimensions'
    first = [st for st in wf.body if isinstance(st, ast.Assign) and 'PseudoNetCDFFile.sliceDimensions(self, *args, **kwds)' in norm(st.value)]
    if not first:
        ctx.violation(Finding('R-ADVIDX', 'cmaqfiles/_ioapi.py', 'ioapi_base.sliceDimensions', wf.body[0], 'the IOAPI wrapper no longer delegates the selection to the verified base method'))
    else:
        ctx.ok('R-ADVIDX', 'ioapi wrapper', w2, 'delegates to PseudoNetCDFFile.sliceDimensions(self, *args, **kwds)')
    regen = [c for c in walk_expr(wf) if isinstance(c, ast.Call) and (dotted(c.func) or '').endswith('.updatetflag') and
             ((kw(c, 'overwrite') is not None and not (isinstance(kw(c, 'overwrite'), ast.Constant) and kw(c, 'overwrite').value in (None, False))) or
              (c.args and not (isinstance(c.args[0], ast.Constant) and c.args[0].value in (None, False))))]
    dele = [st for st in iter_stmts(wf.body) if isinstance(st, ast.Delete) and "variables['TFLAG']" in norm(st)]
    if regen or dele:
        node = api.stmt_of(regen[0]) if regen else dele[0]
        ctx.violation(Finding('R-TFLAGKEEP', 'cmaqfiles/_ioapi.py', 'ioapi_base.sliceDimensions', node,
                              'the wrapper regenerates TFLAG as a regular series after slicing: for index lists, repeats or reversed '
                              'slices the time flags no longer are the selected elements'))
    else:
        ctx.ok('R-TFLAGKEEP', 'ioapi wrapper', w2, 'no forced regeneration of TFLAG after the base selection')
    # 4a'. the wrapper drops the ROW and COL dimensions only when both were selected by index arrays (finite case analysis)
    ctx.rule('R-DELROWCOL', 'IOAPI wrapper: ROW and COL dimensions are deleted only when both ROW and COL are index arrays')
    from .. import consteval as _ce
    # by role: the statement(s) deleting outf.dimensions['ROW'/'COL'] and the tests on the way to them; the part of the function
    # that feeds those tests (backward slice on names) is evaluated by the checker's own evaluator on selector-kind cases, so the
    # decision may be spelled as nested ifs, one boolean expression, a flag or directly in the guard
    dels = [st for st in iter_stmts(wf.body) if isinstance(st, ast.Delete) and any(norm(t) in ("outf.dimensions['ROW']", "outf.dimensions['COL']") for t in st.targets)]
    if not dels:
        ctx.undec('R-DELROWCOL', 'guard', w2, 'no statement deletes the ROW/COL dimensions of the result')
    else:
        guards = [p_ for p_ in parent_chain(dels[0]) if isinstance(p_, ast.If)]
        guards.reverse()
        polar = []
        child = dels[0]
        for p_ in parent_chain(dels[0]):
            if isinstance(p_, ast.If):
                polar.append(child in p_.body or any(child is x for s_ in p_.body for x in ast.walk(s_)))
            child = p_ if isinstance(p_, ast.stmt) else child
        polar.reverse()
        top = guards[0] if guards else dels[0]
        while getattr(top, '_parent', None) is not wf and getattr(top, '_parent', None) is not None:
            top = top._parent
        prefix = wf.body[:wf.body.index(top)] if top in wf.body else []
        provided = ('isarray', 'dimslices', 'kwds', 'outf', 'self')
        needed = set(n.id for g_ in guards for n in ast.walk(g_.test) if isinstance(n, ast.Name))
        pre = []
        for st in reversed(prefix):
            stored = set(n.id for n in ast.walk(st) if isinstance(n, ast.Name) and isinstance(n.ctx, ast.Store))
            if isinstance(st, (ast.FunctionDef, ast.ClassDef)):
                continue
            if stored & needed and not (stored & set(provided) and isinstance(st, ast.Assign)):
                pre.insert(0, st)
                needed |= set(n.id for n in ast.walk(st) if isinstance(n, ast.Name) and isinstance(n.ctx, ast.Load))
        cases = [({'ROW': True, 'COL': True}, True), ({'ROW': True, 'COL': True, 'LAY': True}, True), ({'ROW': False, 'COL': True, 'LAY': True, 'TSTEP': True}, False),
                 ({'ROW': False, 'COL': False, 'LAY': True, 'TSTEP': True}, False), ({'ROW': True, 'COL': False, 'TSTEP': True}, False), ({'ROW': False, 'COL': False}, False)]
        wrong = unk = None
        for isarr_, want in cases:
            def hook(nd, isarr_=isarr_):
                if isinstance(nd, ast.Call) and isinstance(nd.func, ast.Name) and nd.func.id == 'isarray' and len(nd.args) == 1 and isinstance(nd.args[0], ast.Constant):
                    return isarr_.get(nd.args[0].value, _ce.UNK)
                return None
            env = _ce.run_block(pre, {'isarray': dict(isarr_), 'dimslices': dict(isarr_), 'kwds': dict((k_, 0) for k_ in isarr_), 'newdims': ('POINTS',)}, hook, want_env=True)
            if env is _ce.UNK:
                unk = isarr_
                continue
            val = True
            for g_, pol_ in zip(guards, polar):
                v_ = _ce.ev(g_.test, env, hook)
                if v_ is _ce.UNK:
                    val = _ce.UNK
                    break
                val = val and (bool(v_) == pol_)
            if val is _ce.UNK:
                unk = isarr_
            elif bool(val) != want:
                wrong = (isarr_, bool(val))
                break
        if wrong:
            ctx.violation(Finding('R-DELROWCOL', 'cmaqfiles/_ioapi.py', 'ioapi_base.sliceDimensions', guards[0], 'with index arrays on %s (ROW: %s, COL: %s) the ROW and COL dimensions are %s: variables of the result still use them, '
                                  'so the dimension table no longer matches the variables' % (sorted(k_ for k_, v_ in wrong[0].items() if v_), 'array' if wrong[0]['ROW'] else 'slice/int', 'array' if wrong[0]['COL'] else 'slice/int',
                                                                                              'deleted' if wrong[1] else 'kept')))
        elif unk:
            ctx.undec('R-DELROWCOL', 'guard', w2, 'guard outside the evaluated fragment')
        else:
            ctx.ok('R-DELROWCOL', 'guard', w2, '%d selector-kind cases' % len(cases))
    # 4a''. the string form: 'dim,i' is one index, an explicit None stop is open-ended (finite case analysis of the field parsing)
    ctx.rule('R-SLICEDEF', "slice_dim: 'dim,i' -> i:i+1 ; 'dim,a,b[,s]' -> a:b[:s] with None kept as open end")
    sdf = ctx.src.mod('core/_functions.py').func('slice_dim')
    wsd = 'src/PseudoNetCDF/core/_functions.py slice_dim'
    start = [i for i, st in enumerate(sdf.body) if isinstance(st, ast.Assign) and 'map(eval' in norm(st.value)]
    stop = [i for i, st in enumerate(sdf.body) if isinstance(st, ast.If) and 'not in inf.dimensions' in norm(st.test)]
    if not start or not stop:
        ctx.undec('R-SLICEDEF', 'parse', wsd, 'field parsing statements not located')
    else:
        seg = sdf.body[start[0] + 1:stop[0]]
        wrong = unk = None
        for fields, want in ((['x', 2], (2, 3, None)), (['x', 0], (0, 1, None)), (['x', 1, 4], (1, 4, None)), (['x', 1, None], (1, None, None)), (['x', 1, None, 2], (1, None, 2)),
                             (['x', None, 3], (None, 3, None)), (['x', 0, 6, 2], (0, 6, 2))):
            env = _ce.run_block(seg, {'slicedef': list(fields)}, want_env=True)
            if env is _ce.UNK or any(env.get(k_, _ce.UNK) is _ce.UNK for k_ in ('dmin', 'dmax', 'dstride')):
                unk = fields
                continue
            got = (env['dmin'], env['dmax'], env['dstride'])
            if got != want:
                wrong = (fields, got, want)
                break
        if wrong:
            ctx.violation(Finding('R-SLICEDEF', 'core/_functions.py', 'slice_dim', seg[0], "the definition %s is parsed as start:stop:step = %s instead of %s: the hyperslab and the new dimension length are wrong" % (
                ','.join(str(x) for x in wrong[0]), wrong[1], wrong[2])))
        elif unk:
            ctx.undec('R-SLICEDEF', 'parse', wsd, 'parsing outside the evaluated fragment for %s' % unk)
        else:
            ctx.ok('R-SLICEDEF', 'parse', wsd, '7 definitions (index, range, open end, stride) parsed as stated')
    # 4b. integers become unit slices that select exactly one element for every integer, including -1 (finite case analysis)
    ctx.rule('R-UNITSLICE', 'slice(si, <stop>) selects exactly one element for negative, -1, zero and positive integers')
    us = [c for c in walk_expr(branch.orelse[0] if branch.orelse else fn) if False]
    unit = [c for s2 in iter_stmts(branch.orelse) for c in walk_expr(s2) if isinstance(c, ast.Call) and dotted(c.func) == 'slice' and len(c.args) == 2]
    for c in unit:
        v = c.args[0].id if isinstance(c.args[0], ast.Name) else None
        res = []
        for si in (-3, -1, 0, 2):
            stop = _const_eval(c.args[1], {v: si})
            if stop == 'UNK':
                res = None
                break
            res.append((si, len(range(5)[slice(si, stop)])))
        if res is None:
            ctx.undec('R-UNITSLICE', norm(c), where, 'stop expression not evaluable on constants')
        elif all(n_ == 1 for si, n_ in res):
            ctx.ok('R-UNITSLICE', norm(c), where, 'one element for si in (-3, -1, 0, 2)')
        else:
            badsi = [si for si, n_ in res if n_ != 1]
            ctx.violation(Finding('R-UNITSLICE', RP, Q, api.stmt_of(c), '%s selects %s elements for si = %s: an integer selection must be kept as a length-1 axis'
                                  % (norm(c), [n_ for si, n_ in res if n_ != 1], badsi)))
    # 4b'. any other slice built from index values with a stop of <last> + 1: for a last index of -1 the stop is 0 and the slice empty
    ctx.rule('R-STOPPLUS1', 'a slice built from index values never has the bare stop <index> + 1 (for -1 that is 0: an empty selection); the stop is guarded with `or None`')
    nsp = 0
    for rp_, q_ in ((RP, Q), ('core/_functions.py', 'slice_dim')):
        f_ = ctx.src.mod(rp_).func(q_)
        for c in walk_expr(f_):
            if isinstance(c, ast.Call) and dotted(c.func) == 'slice' and len(c.args) >= 2 and c not in unit:
                stop = c.args[1]
                if isinstance(stop, ast.BinOp) and isinstance(stop.op, ast.Add) and isinstance(stop.right, ast.Constant) and stop.right.value == 1:
                    nsp += 1
                    ctx.violation(Finding('R-STOPPLUS1', rp_, q_, api.stmt_of(c), '%s: when the index is -1 the stop is 0 and the selection is empty (and a run that crosses from negative to '
                                          'non-negative indices cannot be a slice at all)' % norm(c)))
        # the same default written as data: `bounds.append(bounds[-1] + 1)` where the list is then unpacked into the bounds of a subscript
        sliced = set(x.id for sl in walk_expr(f_) if isinstance(sl, ast.Slice) for part in (sl.lower, sl.upper, sl.step) if part is not None for x in ast.walk(part) if isinstance(x, ast.Name))
        unpacked_from = set()
        for st in iter_stmts(f_.body):
            if isinstance(st, ast.Assign) and len(st.targets) == 1 and isinstance(st.targets[0], (ast.Tuple, ast.List)) and isinstance(st.value, ast.Name) \
                    and any(isinstance(t_, ast.Name) and t_.id in sliced for t_ in st.targets[0].elts):
                unpacked_from.add(st.value.id)
        for c in walk_expr(f_):
            if isinstance(c, ast.Call) and isinstance(c.func, ast.Attribute) and c.func.attr == 'append' and isinstance(c.func.value, ast.Name) and c.func.value.id in unpacked_from and c.args:
                a0 = c.args[0]
                if isinstance(a0, ast.BinOp) and isinstance(a0.op, ast.Add) and isinstance(a0.right, ast.Constant) and a0.right.value == 1:
                    nsp += 1
                    ctx.violation(Finding('R-STOPPLUS1', rp_, q_, api.stmt_of(c), '%s supplies the stop of a one-element selection as <index> + 1: for the index -1 the stop is 0 and the selection is empty '
                                          "(slice_dim(f, 'x,-1') returns no element instead of the last one)" % norm(c)))
        if q_ == 'slice_dim':
            for st in iter_stmts(f_.body):
                if isinstance(st, ast.Assign) and len(st.targets) == 1 and isinstance(st.targets[0], ast.Name) and st.targets[0].id in sliced:
                    a0 = st.value
                    if isinstance(a0, ast.BinOp) and isinstance(a0.op, ast.Add) and isinstance(a0.right, ast.Constant) and a0.right.value == 1 and isinstance(a0.left, ast.Name) and a0.left.id in sliced:
                        nsp += 1
                        ctx.violation(Finding('R-STOPPLUS1', rp_, q_, st, '%s supplies the stop of a one-element selection as <index> + 1: for the index -1 the stop is 0 and the selection is empty' % norm(st)))
        # bounds resolved with slice.indices() are positions for range(), not bounds for another subscript: with a negative step the open
        # stop resolves to -1, which as a bound means "the last element"
        resolved = set()
        for st in iter_stmts(f_.body):
            if isinstance(st, ast.Assign) and isinstance(st.value, ast.Call) and isinstance(st.value.func, ast.Attribute) and st.value.func.attr == 'indices':
                for t in st.targets:
                    resolved |= set(n_.id for n_ in ast.walk(t) if isinstance(n_, ast.Name))
        if resolved:
            for n_ in walk_expr(f_):
                if isinstance(n_, ast.Slice) and n_.step is not None and any(isinstance(x, ast.Name) and x.id in resolved for x in ast.walk(n_)):
                    nsp += 1
                    ctx.violation(Finding('R-STOPPLUS1', rp_, q_, api.stmt_of(n_), 'bounds that were resolved with slice.indices() are used as subscript bounds again (%s): for a negative step an open stop '
                                          'resolves to -1, which as a bound means the last element, so a reversed selection down to index 0 comes back empty' % norm(n_)))
                    break
    ctx.count('slices built from index values', nsp)
    # the selectors belong to the caller: np.asarray of an array is that array, so a store into it rewrites the caller's indices
    ctx.rule('R-SELECTORRO', 'sliceDimensions never stores into a selector (np.asarray(<selector>) is the caller\'s own array when it is an array already)')
    f_ = ctx.src.mod(RP).func(Q)
    kwname = f_.args.kwarg.arg if f_.args.kwarg is not None else 'dimslices'
    sel = set()
    for st in iter_stmts(f_.body):
        if isinstance(st, ast.Assign) and ('%s[' % kwname) in norm(st.value) and not any(isinstance(c, ast.Call) and (dotted(c.func) or '').split('.')[-1] in ('array', 'copy', 'arange', 'atleast_1d')
                                                                                          for c in walk_expr(st.value)):
            for t in st.targets:
                if isinstance(t, ast.Name):
                    sel.add(t.id)
    badsel = None
    for st in iter_stmts(f_.body):
        tg = st.targets if isinstance(st, ast.Assign) else ([st.target] if isinstance(st, ast.AugAssign) else [])
        for t in tg:
            if isinstance(t, ast.Subscript) and isinstance(t.value, ast.Name) and t.value.id in sel:
                badsel = badsel or st
    if badsel is not None:
        ctx.violation(Finding('R-SELECTORRO', RP, Q, badsel, 'the statement writes into an index array handed in by the caller (%s): the same array used for a second dimension or in a later call '
                              'selects other cells' % norm(badsel)[:50]))
    else:
        ctx.ok('R-SELECTORRO', 'selectors', where, 'no store into %s' % (sorted(sel) or 'a selector'))
    # 4c. new dimension lengths: copyDimension honours an explicit length of 0 (empty selections)
    from .c01 import check_copydimension
    check_copydimension(ctx, rule='R-DIMLEN')
    ctx.rule('R-DIMLEN', 'copyDimension applies the requested length and flag on every branch')
    # 4d. a new dimension length that is computed (not measured on the selected values) is right for every slice (finite case analysis)
    from .. import consteval
    ctx.rule('R-SLICELEN', 'new dimension lengths are the size of the selection; a length computed from slice.indices() is checked on forward, reversed, strided, negative-bound and empty slices')
    # path-wise over the loop that derives the lengths, temporaries substituted: what is stored under the loop key on each path
    lenloops = [st for st in fn.body if isinstance(st, ast.For) and 'dimslices.items()' in norm(st.iter) and isinstance(st.target, ast.Tuple)
                and len(st.target.elts) == 2 and all(isinstance(e, ast.Name) for e in st.target.elts)]
    if not lenloops:
        raise AnalysisError('anchor vanished: loop over dimslices.items() that derives the new dimension lengths in sliceDimensions')
    kvar, svar = [e.id for e in lenloops[0].target.elts]
    slice_texts = (svar, 'dimslices[%s]' % kvar)
    dim_texts = ('dv', 'self.dimensions[%s]' % kvar)
    nstored = 0
    seen_sl = set()
    for pth in _paths.enumerate_paths(lenloops[0].body):
        res = _paths.expand(pth)
        if not res.feasible or pth.exit[0] == 'raise':
            continue
        stored = [(st, new) for st, new in res.stmts if isinstance(new, ast.Assign) and isinstance(new.targets[0], ast.Subscript)
                  and isinstance(new.targets[0].value, ast.Name) and norm(new.targets[0].slice) == kvar]
        if not stored:
            continue
        nstored += 1
        st, new = stored[-1]
        v = new.value
        tv = norm(v)
        if (tv, pth.describe()) in seen_sl:
            continue
        seen_sl.add((tv, pth.describe()))
        measured = (isinstance(v, ast.Attribute) and v.attr == 'size' and isinstance(v.value, ast.Subscript) and norm(v.value.slice) in slice_texts) or \
            (isinstance(v, ast.Call) and dotted(v.func) == 'len' and v.args and ((isinstance(v.args[0], ast.Subscript) and norm(v.args[0].slice) in slice_texts)
                                                                                 or (norm(v.args[0]) in dim_texts and res.polarity('%s in dimslices' % kvar) is False)))
        if measured:
            ctx.ok('R-SLICELEN', tv[:50], where, 'length measured on the selected values / the unselected dimension')
            continue
        wrong = unk = None
        samples = [(6, s_) for s_ in ((None, None, None), (1, 4, None), (None, None, 2), (1, 6, 3), (None, None, -1), (4, 1, -1), (2, 1, -1), (5, None, -2), (0, 0, None),
                                       (-2, None, None), (None, -1, None), (3, 100, None), (5, 0, -3))] + [(1, (None, None, -1)), (1, (0, 1, None))]
        nused = 0
        for n_, s_ in samples:
            sl = slice(*s_)

            def hook(nd, n_=n_, sl=sl):
                if isinstance(nd, ast.Call) and isinstance(nd.func, ast.Attribute) and nd.func.attr == 'indices':
                    return sl.indices(n_)
                if isinstance(nd, ast.Call) and dotted(nd.func) == 'len' and nd.args and norm(nd.args[0]) in dim_texts:
                    return n_
                if isinstance(nd, ast.Attribute) and nd.attr in ('start', 'stop', 'step') and norm(nd.value) in slice_texts:
                    return {'start': sl.start, 'stop': sl.stop, 'step': sl.step}[nd.attr] if getattr(sl, nd.attr) is not None else ('$none',)
                if isinstance(nd, ast.Call) and dotted(nd.func) == 'range' and not nd.keywords:
                    a_ = [consteval.ev(x, {}, hook) for x in nd.args]
                    return consteval.UNK if any(x is consteval.UNK for x in a_) else tuple(range(*a_))
                return None
            # is this sample on this path?  (decisions that do not evaluate on constants do not exclude it)
            on = True
            for e_, x_, p_ in res.conds:
                cv = consteval.ev(x_, {}, hook)
                if cv is not consteval.UNK and bool(cv) != p_:
                    on = False
            if not on:
                continue
            nused += 1
            got = consteval.ev(v, {}, hook)
            if got is consteval.UNK:
                unk = (n_, s_)
                continue
            want = len(range(n_)[sl])
            if got != want:
                wrong = (n_, s_, got, want)
                break
        if wrong:
            ctx.violation(Finding('R-SLICELEN', RP, Q, st, 'for slice%s on a dimension of length %d the new length is computed as %s but %d elements are selected: the result dimension and the '
                                  'selected data disagree (error, or a silently broadcast value)' % (wrong[1], wrong[0], wrong[2], wrong[3])))
        elif unk:
            ctx.undec('R-SLICELEN', tv[:50], where, 'length expression outside the evaluated fragment for slice%s' % (unk[1],))
        else:
            ctx.ok('R-SLICELEN', tv[:50], where, 'computed length equals the number of selected elements on %d sample slices' % nused)
    if nstored == 0:
        raise AnalysisError('anchor vanished: no store of the new length under the loop key in sliceDimensions')
    # 5. functional form: pure slice
    fm = ctx.src.mod('core/_functions.py')
    sd = fm.func('slice_dim')
    if '[dmin:dmax:dstride]' in norm(sd):
        ctx.ok('R-ADVIDX', 'slice_dim', 'src/PseudoNetCDF/core/_functions.py slice_dim', 'basic slice only')
    else:
        ctx.undec('R-ADVIDX', 'slice_dim', 'src/PseudoNetCDF/core/_functions.py slice_dim', 'slice idiom not recognised')
    # the axis of the sliced dimension is looked up per variable
    from .. import lints
    ctx.rule('R-AXISPERVAR', 'axis indices derived from <var>.dimensions are computed for the current variable of the loop')
    for rp_, qn in (('core/_functions.py', 'slice_dim'), ('core/_functions.py', 'reduce_dim'), ('core/_functions.py', 'convolve_dim'),
                    ('core/_functions.py', 'stack_files'), (RP, 'PseudoNetCDFFile.stack')):
        f9 = ctx.src.mod(rp_).func(qn)
        li = lints.loop_invariant_axes(f9)
        w9 = 'src/PseudoNetCDF/%s %s' % (rp_, qn)
        if li:
            seen9 = set()
            for c, nm, d in li:
                if id(d) in seen9:
                    continue
                seen9.add(id(d))
                ctx.violation(Finding('R-AXISPERVAR', rp_, qn, d, 'axis %s is derived from one variable\'s dimension tuple but reused for every variable of the loop: variables that '
                                      'carry the dimension at another position are cut along the wrong axis' % nm))
        else:
            ctx.ok('R-AXISPERVAR', qn, w9, 'axis looked up inside the per-variable loop')
    ctx.assumptions.append('numpy indexing: integers and sequences are advanced indices once a sequence is present; advanced indices are broadcast '
                           'together and, when separated by a slice, the broadcast axis moves to the front (numpy indexing documentation)')
    # ---- R-PASSMASK: variables the string forms pass through keep their mask
    from .. import lints as _lp
    ctx.rule('R-PASSMASK', 'variables that an operation passes through unchanged keep their mask: the converter copy does not fill an in-memory masked target')
    _lp.converter_pass_through(ctx, 'R-PASSMASK', [('core/_functions.py', 'slice_dim')])
