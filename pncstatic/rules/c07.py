"""C07 - saving to netCDF and reopening (structural clauses of the converter).

R-UNLIM    an unlimited source dimension is created unlimited on disk (addDimension; netCDF branch of copyDimension).
R-FILLSRC  masked cells are filled with the fill value of the *destination* variable that addVariable defined.
R-FILLSET  the fill-carrying attribute names honoured at definition time equal those honoured when a variable is
           copied / allocated in memory.
R-KWCOPY   per-variable createVariable keywords start from a copy of the class-level defaults (no leakage of one
           variable's fill value into the next variable or the next save).
R-DEFORDER dimensions are defined before variables; variable definitions before their data.
"""
import ast

from ..engine import parent_chain, AnalysisError, dotted, iter_stmts, norm, walk_expr, const_str, kw
from ..prov import Prov
from ..report import Finding
from .. import api
from .c01 import check_adddimension, check_copydimension

LEVEL_TEXT = (
    "Static checks of Pseudo2NetCDF (ast, provenance): unlimited source dimensions are created unlimited on every path, "
    "the bytes written for masked cells come from the destination variable's declared fill value, the three sites that "
    "recognise fill attributes agree on the set of names, per-variable keywords are built from a copy of the class "
    "defaults, and dimensions/definitions precede data. Attribute/dtype/flavour fidelity and bit-identical data are "
    "properties of the netCDF library at run time and are not decided.")

RP = 'pncgen.py'


def getattr_chain(e):
    """nested getattr(a, 'x', getattr(b, 'y', ...)) -> [(obj text, attr)], default"""
    out = []
    while isinstance(e, ast.Call) and dotted(e.func) == 'getattr' and len(e.args) == 3 and const_str(e.args[1]):
        out.append((norm(e.args[0]), const_str(e.args[1])))
        e = e.args[2]
    return out, e


def run(ctx):
    for r, d in (('R-UNLIM', 'unlimited source dimension -> unlimited on disk'),
                 ('R-FILLSRC', 'filled() takes the destination variable fill value first'),
                 ('R-FILLSET', 'same set of fill-carrying attribute names at definition, copy and allocation'),
                 ('R-KWCOPY', 'createVariable keywords start from a copy of the class defaults'),
                 ('R-DEFORDER', 'dimensions before variables, definitions before data')):
        ctx.rule(r, d)
    mod = ctx.src.mod(RP)
    check_adddimension(ctx)
    check_copydimension(ctx)
    # ---- R-FILLSRC
    q = 'Pseudo2NetCDF.addVariableData'
    fn = mod.func(q)
    where = 'src/PseudoNetCDF/%s %s' % (RP, q)
    fills = [c for c in walk_expr(fn) if isinstance(c, ast.Call) and isinstance(c.func, ast.Attribute) and c.func.attr == 'filled']
    if not fills:
        raise AnalysisError('anchor vanished: .filled() in addVariableData')
    # which names are the destination / source variables
    dest = src_ = None
    for st in iter_stmts(fn.body):
        if isinstance(st, ast.Assign) and isinstance(st.targets[0], ast.Name) and isinstance(st.value, ast.Subscript):
            t = norm(st.value)
            if t.startswith('nfile.variables['):
                dest = st.targets[0].id
            if t.startswith('pfile.variables['):
                src_ = st.targets[0].id
    from .. import paths as _paths
    for c in fills:
        # the argument with temporaries substituted (a fill value looked up in several statements is the same nested lookup)
        arg0 = _paths.subst(c.args[0], _paths.dominating_env(fn, api.stmt_of(c), keep=tuple(x for x in (dest, src_) if x))) if c.args else None
        chain, dflt = getattr_chain(arg0) if c.args else ([], None)
        if not chain:
            ctx.violation(Finding('R-FILLSRC', RP, q, api.stmt_of(c), 'masked cells are filled with the array default instead of the '
                                  'fill value declared for the disk variable'))
            continue
        if chain[0][0] == dest:
            ctx.ok('R-FILLSRC', norm(c)[:50], where, 'lookup order %s' % chain)
        else:
            ctx.violation(Finding('R-FILLSRC', RP, q, api.stmt_of(c),
                                  'the fill value is looked up on %s first (%s) instead of the destination variable %s that addVariable '
                                  'defined: masked cells are written with a value that matches neither _FillValue nor missing_value '
                                  'and read back unmasked' % (chain[0][0], chain[0][1], dest)))
        # the assignment target must be the destination variable
        st = api.stmt_of(c)
        if isinstance(st, ast.Assign) and norm(st.targets[0]).startswith(dest + '['):
            pass
        else:
            ctx.undec('R-FILLSRC', 'target of filled data', where, norm(st)[:60])
    # ---- R-FILLSET
    av = mod.func('Pseudo2NetCDF.addVariable')
    def fill_names(f):
        """names of fill-carrying attributes the function looks up (hasattr / getattr / <keywords>.get), directly or through a loop
        variable that runs over a tuple of constants - however the alternatives are spelled (if/elif chain or loop)"""
        import re as _re
        out = set()
        loops = dict()
        for st in iter_stmts(f.body):
            if isinstance(st, ast.For) and isinstance(st.target, ast.Name) and isinstance(st.iter, (ast.Tuple, ast.List)) and all(const_str(e) is not None for e in st.iter.elts):
                loops[st.target.id] = [const_str(e) for e in st.iter.elts]
        for c in walk_expr(f):
            if not isinstance(c, ast.Call):
                continue
            key = None
            if dotted(c.func) in ('hasattr', 'getattr') and len(c.args) >= 2:
                key = c.args[1]
            elif isinstance(c.func, ast.Attribute) and c.func.attr in ('get', 'pop') and c.args and 'kw' in norm(c.func.value).lower():
                key = c.args[0]
            if key is None:
                continue
            names = [const_str(key)] if const_str(key) is not None else loops.get(key.id, []) if isinstance(key, ast.Name) else []
            out |= set(n for n in names if _re.search('fill|missing', n, _re.I))
        return out
    set_def = fill_names(av)
    fm = ctx.src.mod('core/_files.py')
    cv = fm.func('PseudoNetCDFFile.copyVariable')
    set_copy = fill_names(cv)
    vm = ctx.src.mod('core/_variables.py')
    mv = vm.func('PseudoNetCDFMaskedVariable.__new__')
    set_alloc = fill_names(mv)
    if not set_def or not set_copy or not set_alloc:
        raise AnalysisError('construct not understood: fill attribute chains (%s %s %s)' % (set_def, set_copy, set_alloc))
    wfs = 'src/PseudoNetCDF addVariable / copyVariable / PseudoNetCDFMaskedVariable.__new__'
    if set_def == set_copy == set_alloc:
        ctx.ok('R-FILLSET', 'fill attribute names', wfs, sorted(set_def))
    else:
        ctx.violation(Finding('R-FILLSET', RP, 'Pseudo2NetCDF.addVariable', [s for s in av.body if isinstance(s, ast.If)][0],
                              'fill-carrying attributes honoured when a variable is defined on disk %s differ from those honoured in '
                              'memory (copyVariable %s, masked allocation %s): a fill value recognised in memory is dropped at definition time'
                              % (sorted(set_def), sorted(set_copy), sorted(set_alloc))))
    # ---- R-FILLZERO: a fill value of 0 is a fill value - the looked-up value is tested against None, never for truth
    ctx.rule('R-FILLZERO', 'a looked-up fill value is tested with `is None` / `is not None`, never by truthiness (0 and 0.0 are legal fill values)')
    import re as _re2
    nz = 0
    for rp_, q_, f_ in ((RP, 'Pseudo2NetCDF.addVariable', av), ('core/_files.py', 'PseudoNetCDFFile.copyVariable', cv), ('core/_variables.py', 'PseudoNetCDFMaskedVariable.__new__', mv)):
        loops_ = dict()
        for st in iter_stmts(f_.body):
            if isinstance(st, ast.For) and isinstance(st.target, ast.Name) and isinstance(st.iter, (ast.Tuple, ast.List)) and all(const_str(e) is not None for e in st.iter.elts):
                loops_[st.target.id] = [const_str(e) for e in st.iter.elts]

        def is_fill_lookup(c):
            if not isinstance(c, ast.Call):
                return False
            key = None
            if dotted(c.func) == 'getattr' and len(c.args) >= 2:
                key = c.args[1]
            elif isinstance(c.func, ast.Attribute) and c.func.attr in ('get', 'pop') and c.args and 'kw' in norm(c.func.value).lower():
                key = c.args[0]
            if key is None:
                return False
            names = [const_str(key)] if const_str(key) is not None else loops_.get(key.id, []) if isinstance(key, ast.Name) else []
            return any(_re2.search('fill|missing', n_, _re2.I) for n_ in names if n_)
        held = set(st.targets[0].id for st in iter_stmts(f_.body) if isinstance(st, ast.Assign) and len(st.targets) == 1 and isinstance(st.targets[0], ast.Name)
                   and is_fill_lookup(st.value))

        def is_fill_value(e):
            return (isinstance(e, ast.Name) and e.id in held) or is_fill_lookup(e)
        badt = []
        for n_ in ast.walk(f_):
            tests = []
            if isinstance(n_, (ast.If, ast.IfExp, ast.While)):
                tests.append(n_.test)
            if isinstance(n_, ast.BoolOp):
                tests.extend(n_.values[:-1] if not isinstance(getattr(n_, '_parent', None), (ast.If, ast.IfExp, ast.While)) else n_.values)
            if isinstance(n_, ast.UnaryOp) and isinstance(n_.op, ast.Not):
                tests.append(n_.operand)
            for t_ in tests:
                if is_fill_value(t_):
                    badt.append(t_)
        nz += 1
        wz = 'src/PseudoNetCDF/%s %s' % (rp_, q_)
        if badt:
            ctx.violation(Finding('R-FILLZERO', rp_, q_, api.stmt_of(badt[0]), 'the looked-up fill value %s is tested for truth: a fill value of 0 / 0.0 counts as absent, the disk variable gets no '
                                  '_FillValue and its masked cells come back as ordinary zeros' % norm(badt[0])), oid=q_)
        else:
            ctx.ok('R-FILLZERO', q_, wz, '%d fill-value names held; none tested for truth' % len(held))
    # ---- R-NCATTRAPI: attributes reach the destination through setncattr
    ctx.rule('R-NCATTRAPI', 'global and variable attributes are written with <destination>.setncattr(name, value); python attribute assignment on a netCDF4 object refuses '
             'the names of its own members (path, name, data_model, scale, mask, ...) and the attribute is dropped')
    na = 0
    for q_, dest_ in (('Pseudo2NetCDF.addGlobalProperties', 'nfile'), ('Pseudo2NetCDF.addVariableProperties', 'nvar')):
        f_ = mod.func(q_)
        wz = 'src/PseudoNetCDF/%s %s' % (RP, q_)
        good_, bad_ = [], []
        for c in walk_expr(f_):
            if not isinstance(c, ast.Call):
                continue
            if isinstance(c.func, ast.Attribute) and c.func.attr == 'setncattr' and norm(c.func.value) == dest_:
                good_.append(c)
            if dotted(c.func) == 'setattr' and c.args and norm(c.args[0]) == dest_:
                bad_.append(c)
        for st in iter_stmts(f_.body):
            if isinstance(st, ast.Assign) and any(isinstance(t, ast.Attribute) and norm(t.value) == dest_ for t in st.targets):
                bad_.append(st)
        na += len(good_) + len(bad_)
        if bad_:
            ctx.violation(Finding('R-NCATTRAPI', RP, q_, api.stmt_of(bad_[0]) if not isinstance(bad_[0], ast.stmt) else bad_[0],
                                  'the attribute is stored with python attribute assignment on %s: for a name that is a member of the netCDF4 object (path, name, data_model, '
                                  'file_format, parent, scale, mask, ...) that raises or rebinds the member, and the attribute is missing from the written file' % dest_), oid=q_)
        elif good_:
            ctx.ok('R-NCATTRAPI', q_, wz, '%d setncattr calls on %s' % (len(good_), dest_))
        else:
            ctx.undec('R-NCATTRAPI', q_, wz, 'no attribute store on %s found' % dest_)
    ctx.floor('attribute stores judged by R-NCATTRAPI', na, 4)
    # ---- R-DATAWRITE: every variable's data are written, whatever the data look like
    from .. import paths as _p07
    ctx.rule('R-DATAWRITE', 'addVariableData stores into the destination variable on every path (the write is also what extends an unlimited dimension)')
    avd = mod.func('Pseudo2NetCDF.addVariableData')
    wavd = 'src/PseudoNetCDF/%s Pseudo2NetCDF.addVariableData' % RP
    nd_, bad_ = 0, None
    for pth in _p07.enumerate_paths(avd.body, limit=5000):
        if pth.exit[0] == 'raise':
            continue
        nd_ += 1
        st_ = [st for st in pth.stmts if isinstance(st, ast.Assign) and isinstance(st.targets[0], ast.Subscript) and isinstance(st.targets[0].value, ast.Name) and st.targets[0].value.id == dest]
        if not st_:
            bad_ = bad_ or pth
    if bad_ is not None:
        conds = [norm(x[1])[:40] + ('' if x[2] else ' is false') for x in bad_.items if x[0] == 'cond'][-2:]
        ctx.violation(Finding('R-DATAWRITE', RP, 'Pseudo2NetCDF.addVariableData', avd.body[-1], 'on the path with %s nothing is stored into the destination variable: its cells keep whatever the file library pre-filled, '
                              'and an unlimited dimension that only this variable would have extended stays at length 0' % ' / '.join(conds)))
    elif nd_:
        ctx.ok('R-DATAWRITE', 'addVariableData', wavd, 'destination variable assigned on all %d paths' % nd_)
    # ---- R-ATTRSKIP: attributes are skipped only for the reasons the converter documents (bound methods; _FillValue of a disk variable)
    ctx.rule('R-ATTRSKIP', 'the attribute writers skip an attribute only because its value is a bound method (or it is the _FillValue the disk variable was created with)')
    for q_, dest_ in (('Pseudo2NetCDF.addGlobalProperties', 'nfile'), ('Pseudo2NetCDF.addVariableProperties', 'nvar')):
        f_ = mod.func(q_)
        loops_ = [st for st in f_.body if isinstance(st, ast.For)]
        if not loops_:
            ctx.undec('R-ATTRSKIP', q_, 'src/PseudoNetCDF/%s %s' % (RP, q_), 'attribute loop not found')
            continue
        np_, badp = 0, None
        for pth in _p07.enumerate_paths(loops_[0].body, limit=5000):
            if pth.exit[0] == 'raise':
                continue
            wrote = any(isinstance(c, ast.Call) and isinstance(c.func, ast.Attribute) and c.func.attr == 'setncattr' for st in pth.stmts for c in walk_expr(st)) or \
                any(isinstance(st, ast.Try) for st in pth.stmts) or \
                any(isinstance(p_, ast.ExceptHandler) for st in pth.stmts for p_ in parent_chain(st))      # the store was attempted and raised
            if wrote:
                continue
            np_ += 1
            reasons = [(norm(x[1]), x[2]) for x in pth.items if x[0] == 'cond']
            okr = any(('MethodType' in t and 'isinstance' in t and (pol is True) != t.startswith('not ')) for t, pol in reasons) or \
                any(("'_FillValue'" in t and pol is True) for t, pol in reasons)
            if not okr:
                badp = badp or (pth, reasons)
        wq = 'src/PseudoNetCDF/%s %s' % (RP, q_)
        if badp is not None:
            why = ' / '.join('%s%s' % (t[:50], '' if pol else ' is false') for t, pol in badp[1][-2:]) or 'no condition'
            ctx.violation(Finding('R-ATTRSKIP', RP, q_, loops_[0], 'an attribute is skipped when %s: it is missing from the saved file although its name is public and its value is storable' % why), oid=q_)
        else:
            ctx.ok('R-ATTRSKIP', q_, wq, '%d skipping paths, all for a bound method / the creation-time _FillValue' % np_)
    # ---- R-KWCOPY
    kdef = [st for st in iter_stmts(av.body) if isinstance(st, ast.Assign) and isinstance(st.targets[0], ast.Name) and st.targets[0].id == 'create_variable_kwds']
    if not kdef:
        raise AnalysisError('anchor vanished: create_variable_kwds in addVariable')
    v = kdef[0].value
    copied = (isinstance(v, ast.Call) and isinstance(v.func, ast.Attribute) and v.func.attr == 'copy') or \
        (isinstance(v, ast.Call) and dotted(v.func) in ('dict', 'copy.copy', 'copy.deepcopy')) or isinstance(v, (ast.Dict, ast.DictComp))
    if copied:
        ctx.ok('R-KWCOPY', 'addVariable keywords', 'src/PseudoNetCDF/%s Pseudo2NetCDF.addVariable' % RP, norm(kdef[0]))
    else:
        ctx.violation(Finding('R-KWCOPY', RP, 'Pseudo2NetCDF.addVariable', kdef[0],
                              "the per-variable keywords alias the class-level defaults: one variable's fill_value stays in the shared "
                              'dict and is passed to createVariable for every later variable and every later save'))
    # ---- R-DEFORDER
    cvt = mod.func('Pseudo2NetCDF.convert')
    calls = [(c.lineno, dotted(c.func)) for c in walk_expr(cvt) if isinstance(c, ast.Call) and (dotted(c.func) or '').startswith('self.add')]
    names = [n for l, n in sorted(calls)]
    if 'self.addDimensions' in names and 'self.addVariables' in names and names.index('self.addDimensions') < names.index('self.addVariables'):
        ctx.ok('R-DEFORDER', 'convert', 'src/PseudoNetCDF/%s Pseudo2NetCDF.convert' % RP, ' -> '.join(names))
    else:
        ctx.violation(Finding('R-DEFORDER', RP, 'Pseudo2NetCDF.convert', cvt.body[-1], 'dimensions must be defined before variables (%s)' % names))
    avs = mod.func('Pseudo2NetCDF.addVariables')
    loops = [st for st in iter_stmts(avs.body) if isinstance(st, ast.For)]
    firstdef = [c.lineno for c in walk_expr(avs) if isinstance(c, ast.Call) and dotted(c.func) == 'self.addVariable']
    firstdat = [c.lineno for c in walk_expr(avs) if isinstance(c, ast.Call) and dotted(c.func) == 'self.addVariableData']
    if firstdef and firstdat and min(firstdef) < min(firstdat):
        ctx.ok('R-DEFORDER', 'addVariables', 'src/PseudoNetCDF/%s Pseudo2NetCDF.addVariables' % RP, 'all definitions, then data')
    else:
        ctx.violation(Finding('R-DEFORDER', RP, 'Pseudo2NetCDF.addVariables', avs.body[0], 'variable data written before all variables are defined'))
    # addVariable: createVariable before addVariableProperties before data
    seq = [(c.lineno, (dotted(c.func) or '').split('.')[-1]) for c in walk_expr(av) if isinstance(c, ast.Call)
           and (dotted(c.func) or '').split('.')[-1] in ('createVariable', 'addVariableProperties', 'addVariableData')]
    seq = [n for l, n in sorted(seq)]
    if seq == ['createVariable', 'addVariableProperties', 'addVariableData']:
        ctx.ok('R-DEFORDER', 'addVariable', 'src/PseudoNetCDF/%s Pseudo2NetCDF.addVariable' % RP, ' -> '.join(seq))
    else:
        ctx.violation(Finding('R-DEFORDER', RP, 'Pseudo2NetCDF.addVariable', av.body[-1], 'definition/properties/data order is %s' % seq))
    # ---- R-ATTRALL / R-ITERORDER
    ctx.rule('R-ATTRALL', 'only structural/private names are excluded when attributes are copied')
    ctx.rule('R-ITERORDER', 'dimensions and variables are written in the source order')
    cls = mod.cls('Pseudo2NetCDF')
    consts = {}
    for st in cls.body:
        if isinstance(st, ast.Assign) and isinstance(st.targets[0], ast.Name):
            consts[st.targets[0].id] = st.value
    want = {'ignore_global_properties': set(['variables', 'dimensions']), 'ignore_variable_properties': set(['typecode', 'dimensions'])}
    for name, allowed in sorted(want.items()):
        v = consts.get(name)
        got = set(const_str(e) for e in v.elts) if isinstance(v, (ast.List, ast.Tuple)) else None
        w = 'src/PseudoNetCDF/%s Pseudo2NetCDF.%s' % (RP, name)
        if got is None:
            raise AnalysisError('anchor vanished: %s' % name)
        if got <= allowed:
            ctx.ok('R-ATTRALL', name, w, sorted(got))
        else:
            ctx.violation(Finding('R-ATTRALL', RP, 'Pseudo2NetCDF', [s2 for s2 in cls.body if isinstance(s2, ast.Assign) and norm(s2.targets[0]) == name][0],
                                  'attributes %s are silently dropped when a file is saved' % sorted(got - allowed)))
    for name in ('ignore_global_re', 'ignore_variable_re'):
        v = consts.get(name)
        pat = const_str(v.args[0]) if isinstance(v, ast.Call) and v.args else None
        if pat is not None and pat.startswith('^_'):
            ctx.ok('R-ATTRALL', name, 'src/PseudoNetCDF/%s Pseudo2NetCDF.%s' % (RP, name), 'only names starting with an underscore: %r' % pat)
        else:
            ctx.violation(Finding('R-ATTRALL', RP, 'Pseudo2NetCDF', v if v is not None else cls, 'the exclusion pattern %r matches public attribute names' % pat))
    for qn, coll in (('Pseudo2NetCDF.addDimensions', 'pfile.dimensions.keys()'), ('Pseudo2NetCDF.addVariables', 'pfile.variables.keys()')):
        f3 = mod.func(qn)
        loops = [s2 for s2 in iter_stmts(f3.body) if isinstance(s2, ast.For)]
        if loops and all(norm(l.iter) in (coll, coll[:-7]) for l in loops):
            ctx.ok('R-ITERORDER', qn, 'src/PseudoNetCDF/%s %s' % (RP, qn), 'iterates %s in order' % coll)
        else:
            ctx.violation(Finding('R-ITERORDER', RP, qn, loops[0] if loops else f3, 'items are not written in the order of %s (found %s)' % (coll, [norm(l.iter) for l in loops])))
    # variable definition passes type code and dimension tuple through unchanged
    cvc = [c for c in walk_expr(av) if isinstance(c, ast.Call) and (dotted(c.func) or '').endswith('createVariable')]
    if cvc and [norm(a) for a in cvc[0].args[:3]] == ['k', 'typecode', 'pvar.dimensions']:
        ctx.ok('R-ITERORDER', 'addVariable signature', 'src/PseudoNetCDF/%s Pseudo2NetCDF.addVariable' % RP, 'createVariable(k, typecode, pvar.dimensions, ...)')
    else:
        ctx.violation(Finding('R-ITERORDER', RP, 'Pseudo2NetCDF.addVariable', api.stmt_of(cvc[0]) if cvc else av, 'the disk variable is not defined with the source name, type code and dimension tuple'))
    # ---- R-VERBATIM: attribute values and the type code reach the disk file unchanged
    from .. import lints
    ctx.rule('R-VERBATIM', 'attribute values and the variable type code are passed to the disk file without being rewritten')
    for qn, nm, pred, what in (
            ('Pseudo2NetCDF.addVariableProperties', 'value', lambda d: norm(d.value).startswith('getattr(pvar,'), 'variable attribute value'),
            ('Pseudo2NetCDF.addGlobalProperties', 'value', lambda d: norm(d.value).startswith('getattr(pfile,'), 'global attribute value'),
            ('Pseudo2NetCDF.addVariable', 'typecode', lambda d: norm(d.value) in ('pvar.typecode()', 'pvar[...].dtype.char'), 'variable type code')):
        f4 = mod.func(qn)
        re_ = lints.verbatim(f4, nm, pred)
        w4 = 'src/PseudoNetCDF/%s %s' % (RP, qn)
        if re_ is None:
            raise AnalysisError('anchor vanished: definition of %s in %s' % (nm, qn))
        if re_:
            for d in re_:
                ctx.violation(Finding('R-VERBATIM', RP, qn, d, 'the %s read from the source is rewritten (%s) before it is written: the saved file does not '
                                      'carry the same value/type as the source' % (what, norm(d)[:70])))
        else:
            ctx.ok('R-VERBATIM', '%s:%s' % (qn, nm), w4, '%s passed through unchanged (only the bool->int8 fallback inside except TypeError)' % what)
    # ---- R-CONVSTEPS: convert runs its three stages unconditionally (not under the verbosity switch or any other option)
    ctx.rule('R-CONVSTEPS', 'convert calls addDimensions, addGlobalProperties and addVariables as top-level statements')
    cv = mod.func('Pseudo2NetCDF.convert')
    for step in ('addDimensions', 'addGlobalProperties', 'addVariables'):
        top = [st for st in cv.body if isinstance(st, ast.Expr) and isinstance(st.value, ast.Call) and dotted(st.value.func) == 'self.' + step]
        anyw = [c for c in ast.walk(cv) if isinstance(c, ast.Call) and dotted(c.func) == 'self.' + step]
        if top:
            ctx.ok('R-CONVSTEPS', step, 'src/PseudoNetCDF/%s Pseudo2NetCDF.convert' % RP, 'top-level call')
        elif anyw:
            guard = [p_ for p_ in parent_chain(api.stmt_of(anyw[0])) if isinstance(p_, ast.If)]
            ctx.violation(Finding('R-CONVSTEPS', RP, 'Pseudo2NetCDF.convert', api.stmt_of(anyw[0]), '%s runs only under `%s`: with that option off the saved file has no %s' % (
                step, norm(guard[0].test) if guard else '?', {'addDimensions': 'dimensions', 'addGlobalProperties': 'global attributes', 'addVariables': 'variables'}[step])), oid=step)
        else:
            ctx.violation(Finding('R-CONVSTEPS', RP, 'Pseudo2NetCDF.convert', cv.body[-1], 'convert no longer calls %s' % step), oid=step)
    # ---- R-AUTOSCALE: the library's automatic mask/scale conversion of the destination stays on while data are written
    ctx.rule('R-AUTOSCALE', 'the converter never switches off automatic mask/scale conversion of the destination (packed variables are packed on write)')
    offs = [c for q5, f5 in mod.functions.items() for c in ast.walk(f5) if isinstance(c, ast.Call) and isinstance(c.func, ast.Attribute) and c.func.attr in ('set_auto_maskandscale', 'set_auto_scale', 'set_auto_mask')
            and c.args and isinstance(c.args[0], ast.Constant) and c.args[0].value is False]
    if offs:
        ctx.violation(Finding('R-AUTOSCALE', RP, 'Pseudo2NetCDF', api.stmt_of(offs[0]), '%s: variables that carry scale_factor/add_offset are then stored unpacked-as-raw, and come back changed on reading' % norm(offs[0])))
    else:
        ctx.ok('R-AUTOSCALE', 'pncgen.py', 'src/PseudoNetCDF/%s' % RP, 'no set_auto_*(False)')
    # the same on the reading side: the disk-backed file class never switches the conversion off for variables it hands out
    fmod = ctx.src.mod('core/_files.py')
    offs_r = [(q5, c) for q5, f5 in fmod.functions.items() if q5.startswith('netcdf.') for c in ast.walk(f5) if isinstance(c, ast.Call) and isinstance(c.func, ast.Attribute)
              and c.func.attr in ('set_auto_maskandscale', 'set_auto_scale', 'set_auto_mask') and c.args and isinstance(c.args[0], ast.Constant) and c.args[0].value is False]
    if offs_r:
        ctx.violation(Finding('R-AUTOSCALE', 'core/_files.py', offs_r[0][0], api.stmt_of(offs_r[0][1]), '%s in the reader: masked cells of those variables come back as plain numbers holding the fill value' % norm(offs_r[0][1])))
    else:
        ctx.ok('R-AUTOSCALE', 'core/_files.py netcdf', 'src/PseudoNetCDF/core/_files.py netcdf', 'no set_auto_*(False)')
    # ---- R-SYNCED: what was written is on disk when convert returns (the returned handle may stay open while the path is re-opened)
    ctx.rule('R-SYNCED', 'convert (or the addVariables it calls) ends with a sync() of the destination')
    # an unconditional one: a top-level statement of the function (a sync inside the per-variable loop or under an option does not
    # cover the last variable / the default)
    syncs = [q5 for q5 in ('Pseudo2NetCDF.convert', 'Pseudo2NetCDF.addVariables')
             if any(isinstance(st, ast.Expr) and isinstance(st.value, ast.Call) and isinstance(st.value.func, ast.Attribute) and st.value.func.attr == 'sync' for st in mod.func(q5).body)]
    if syncs:
        ctx.ok('R-SYNCED', 'convert', 'src/PseudoNetCDF/%s Pseudo2NetCDF.convert' % RP, 'sync() in %s' % ', '.join(syncs))
    else:
        ctx.violation(Finding('R-SYNCED', RP, 'Pseudo2NetCDF.convert', cv.body[-1], 'neither convert nor addVariables syncs the destination: for the classic flavours the file on disk is incomplete (record count 0) '
                              'as long as the handle returned by save() is alive'))
    # ---- R-TYPECODE: a variable built from values reports the type of those values
    ctx.rule('R-TYPECODE', 'PseudoNetCDFVariable built with values=: typecode() is the dtype char of the values on every path (the disk type is defined from typecode())')
    vmod = ctx.src.mod('core/_variables.py')
    vn = vmod.func('PseudoNetCDFVariable.__new__')
    tcs = [st for st in iter_stmts(vn.body) if isinstance(st, ast.Assign) and any(isinstance(t, ast.Name) and t.id == 'typecode' for t in st.targets) and 'dtype.char' in norm(st.value)]
    wv = 'src/PseudoNetCDF/core/_variables.py PseudoNetCDFVariable.__new__'
    if not tcs:
        ctx.undec('R-TYPECODE', 'typecode', wv, 'assignment typecode = <values>.dtype.char not found')
    for st in tcs:
        cond = [p_ for p_ in parent_chain(st) if isinstance(p_, ast.If) and 'typecode' in norm(p_.test)]
        if cond:
            ctx.violation(Finding('R-TYPECODE', 'core/_variables.py', 'PseudoNetCDFVariable.__new__', st, 'the type code follows the values only when `%s`: a variable declared as \'f\' and built from float64 values '
                                  'keeps float64 data but answers typecode() == \'f\', so it is saved as float32' % norm(cond[0].test)))
        else:
            ctx.ok('R-TYPECODE', 'typecode', wv, norm(st))
    # ---- R-CHARTYPE: a type code taken from numpy's dtype.char is not handed on as 'S' (createVariable reads that as a zero-length string type)
    ctx.rule('R-CHARTYPE', "converter: a type code that falls back to <data>.dtype.char maps numpy's 'S' (a character array) to 'c' / 'S1' before createVariable sees it")
    gm = ctx.src.mod(RP)
    nchar = 0
    for q, fn_ in sorted(gm.functions.items()):
        if '<locals>' in q or not q.startswith('Pseudo2NetCDF.'):
            continue
        chars = [x for x in ast.walk(fn_) if isinstance(x, ast.Attribute) and x.attr == 'char' and isinstance(x.value, ast.Attribute) and x.value.attr == 'dtype']
        if not chars:
            continue
        flows = 'createVariable' in norm(fn_) or 'return' in [type(x).__name__.lower() for x in ast.walk(fn_)]
        if not flows:
            continue
        nchar += 1
        wq = 'src/PseudoNetCDF/%s %s' % (RP, q)
        holders = set(t.id for st in iter_stmts(fn_.body) if isinstance(st, ast.Assign) and any(c_ in list(ast.walk(st.value)) for c_ in chars) for t in st.targets if isinstance(t, ast.Name))
        mapped = False
        par_of = {}
        for x in ast.walk(fn_):
            for ch_ in ast.iter_child_nodes(x):
                par_of[id(ch_)] = x
        for x in ast.walk(fn_):
            if isinstance(x, ast.Compare) and len(x.ops) == 1 and isinstance(x.ops[0], ast.Eq):
                sides = [x.left, x.comparators[0]]
                if any(const_str(s_) == 'S' for s_ in sides) and any((isinstance(s_, ast.Name) and s_.id in holders) or (isinstance(s_, ast.Attribute) and s_.attr in ('char', 'kind')) for s_ in sides):
                    par_ = par_of.get(id(x))
                    scope = par_ if isinstance(par_, (ast.If, ast.IfExp)) else None
                    body_nodes = (scope.body if isinstance(scope, ast.If) else [scope.body]) if scope is not None else []
                    if any(const_str(c_) in ('c', 'S1') for b_ in body_nodes for c_ in ast.walk(b_)):
                        mapped = True
            elif isinstance(x, ast.Dict):
                for k_, v_ in zip(x.keys, x.values):
                    if k_ is not None and const_str(k_) == 'S' and const_str(v_) in ('c', 'S1'):
                        mapped = True
        if mapped:
            ctx.ok('R-CHARTYPE', q, wq, "dtype.char 'S' is mapped to the character type")
        else:
            ctx.violation(Finding('R-CHARTYPE', RP, q, api.stmt_of(chars[0]), "the type code of a variable without typecode() (one read from a netCDF file) is its dtype.char; for a character variable that is 'S', "
                                  "which createVariable reads as a zero-length string type and rejects: a file with a character variable (WRF Times, station names) that was opened from netCDF cannot be saved again"))
    ctx.count('converter functions with a dtype.char fallback', nchar)
    # ---- R-PARAMUSED: every option the converter accepts is read (a requested flavour/mode that is not forwarded silently becomes the default)
    ctx.rule('R-PARAMUSED', 'every parameter of the converter functions is read in the body (options are forwarded, not dropped)')
    npu = 0
    for q5, f5 in sorted(mod.functions.items()):
        if '<locals>' in q5 or q5.split('.')[-1].startswith('test') or 'Test' in q5:
            continue
        ps = [a.arg for a in f5.args.args if a.arg not in ('self', 'cls')] + [a.arg for a in f5.args.kwonlyargs]
        if not ps:
            continue
        loads = set(n.id for n in ast.walk(f5) if isinstance(n, ast.Name) and isinstance(n.ctx, ast.Load))
        dead = [p_ for p_ in ps if p_ not in loads]
        npu += len(ps)
        if dead:
            ctx.violation(Finding('R-PARAMUSED', RP, q5, f5.body[-1] if len(f5.body) < 2 or not isinstance(f5.body[0], ast.Expr) else f5.body[1],
                                  'parameter %s of %s is accepted but never read: what the caller asked for (e.g. the netCDF flavour) is silently replaced by the default' % (dead, q5)), oid=q5)
        else:
            ctx.ok('R-PARAMUSED', q5, 'src/PseudoNetCDF/%s %s' % (RP, q5), '%d parameters read' % len(ps))
    ctx.floor('parameters of the converter functions', npu, 25)
    # ---- R-SCALARMASK: a dimensionless variable is written as the (possibly masked) array, not as an extracted Python scalar
    ctx.rule('R-SCALARMASK', 'the 0-d branch of addVariableData stores the variable/array itself; scalar extraction (.item(), .getValue(), float()) loses the mask')
    avd = mod.func('Pseudo2NetCDF.addVariableData')
    sb = [st for st in iter_stmts(avd.body) if isinstance(st, ast.If) and 'ndim == 0' in norm(st.test)]
    if not sb:
        ctx.undec('R-SCALARMASK', '0-d branch', 'src/PseudoNetCDF/%s Pseudo2NetCDF.addVariableData' % RP, '0-d branch not found')
    else:
        from .c06 import drops_mask as _dm
        for st in iter_stmts(sb[0].body):
            if isinstance(st, ast.Assign) and isinstance(st.targets[0], ast.Subscript) and norm(st.targets[0].value) == 'nvar':
                ext = [c for c in ast.walk(st.value) if isinstance(c, ast.Call) and ((isinstance(c.func, ast.Attribute) and c.func.attr in ('item', 'getValue', 'tolist')) or
                                                                                      dotted(c.func) in ('float', 'int', 'np.asscalar'))]
                d_ = _dm(st.value)
                if ext or d_ is not None:
                    ctx.violation(Finding('R-SCALARMASK', RP, 'Pseudo2NetCDF.addVariableData', st, 'the dimensionless variable is written as %s: for a masked scalar that is the hidden data value, '
                                          'so it comes back unmasked' % norm(ext[0] if ext else d_)[:40]))
                else:
                    ctx.ok('R-SCALARMASK', norm(st)[:40], 'src/PseudoNetCDF/%s Pseudo2NetCDF.addVariableData' % RP, 'array stored as is')
    # ---- the converter never writes its source (shared with C05 R-QMUT)
    from .c05 import _qmut_scan
    nq = 0
    for name in ('convert', 'addDimensions', 'addDimension', 'addGlobalProperties', 'addVariable', 'addVariableData', 'addVariables'):
        qn = 'Pseudo2NetCDF.' + name
        f2 = mod.func(qn)
        p, events, nsink, bad = _qmut_scan(ctx, mod, qn, f2, 'self', ['pfile'], [], False)
        nq += 1
        ctx.rule('R-QMUT', 'the converter writes neither its source file nor its own class-level state')
        from ..prov import is_maybe_input
        for ev in events:
            if ev.kind == 'mutator-call' and ev.extra in ('close',) and ev.base[0] == 'FILE' and is_maybe_input(ev.base[1]):
                ctx.violation(Finding('R-QMUT', RP, qn, ev.stmt, 'the converter closes %s, which is the caller\'s own open file whenever an object (not a path) was passed in: the caller\'s handle is dead after a save, and '
                                      'closing it again hits whatever file has reused the id' % norm(ev.stmt)[:30]), oid='%s:close' % qn)
        if bad:
            for ev in bad:
                ctx.violation(Finding('R-QMUT', RP, qn, ev.stmt, 'the converter writes %s of %s (%s)' % (
                    {'VIEW': 'a view of the storage', 'SAME': 'an object', 'VARS': 'the variable table', 'DIMS': 'the dimension table',
                     'FILE': 'an attribute', 'ATTR': 'a mutable attribute (class-level default)'}[ev.base[0]], ev.base[1], ev.kind)))
        else:
            ctx.ok('R-QMUT', qn, 'src/PseudoNetCDF/%s %s' % (RP, qn), '%d write sinks, none on the source file / class defaults' % nsink)
    ctx.floor('converter methods', nq, 7)
