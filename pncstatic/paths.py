"""Acyclic path enumeration over a statement list, for rules of the form "on every path on which C holds, X happens".

A path is (conds, stmts, exit):
  conds   [(atom expression, polarity)]   decisions taken, in order; `not`, `and`, `or`, `is not`, `!=`, `not in` are decomposed so that
                                          an atom is never a negation (short-circuit order is kept: `a and b` false = a false | a true, b false)
  stmts   simple statements in execution order; conditional expressions inside them are resolved (the branch taken is substituted
          and the decision recorded in conds); loops are kept whole as one opaque element (a rule that cares looks inside)
  exit    ('return', value expr or None) | ('raise', node) | ('fall', None) | ('break'|'continue', None)
Spelling differences that do not change the set of paths (if/else against early return, if-statement against conditional
expression, nested ifs against `and`, De Morgan forms, `if not c: A else: B` against `if c: B else: A`) give the same paths.
"""
import ast

from .engine import AnalysisError, norm

def clone(n):
    """copy of a syntax tree by its fields only (the engine hangs a _parent attribute on every node; copy.deepcopy would follow it
    and copy the whole module)"""
    if isinstance(n, list):
        return [clone(x) for x in n]
    if not isinstance(n, ast.AST):
        return n
    m = type(n)()
    for f, v in ast.iter_fields(n):
        setattr(m, f, clone(v) if isinstance(v, (ast.AST, list)) else v)
    for a in ('lineno', 'col_offset', 'end_lineno', 'end_col_offset', '_ifexp'):
        if hasattr(n, a):
            setattr(m, a, getattr(n, a))
    return m


NEG_CMP = {ast.IsNot: ast.Is, ast.NotEq: ast.Eq, ast.NotIn: ast.In}


class Path(object):
    """items: [('cond', atom, polarity) | ('stmt', statement)] in execution order"""
    __slots__ = ('items', 'exit')

    def __init__(self, items=(), exit=None):
        self.items, self.exit = list(items), exit

    @property
    def conds(self):
        return [(i[1], i[2]) for i in self.items if i[0] == 'cond']

    @property
    def stmts(self):
        return [i[1] for i in self.items if i[0] == 'stmt']

    def extended(self, conds=(), stmts=()):
        return Path(self.items + [('cond', e, p) for e, p in conds] + [('stmt', s) for s in stmts], self.exit)

    def polarity(self, text):
        """polarity of the last decision on an atom whose normalised text is `text` (None when the path does not decide it)"""
        out = None
        for e, p in self.conds:
            if norm(e) == text:
                out = p
        return out

    def decided(self, pred):
        """[(atom, polarity)] for atoms satisfying pred(atom)"""
        return [(e, p) for e, p in self.conds if pred(e)]

    def calls(self, attr=None, name=None):
        out = []
        for st in self.stmts:
            for n in ast.walk(st):
                if isinstance(n, ast.Call):
                    if attr is not None and isinstance(n.func, ast.Attribute) and n.func.attr == attr:
                        out.append((n, st))
                    elif name is not None and isinstance(n.func, ast.Name) and n.func.id == name:
                        out.append((n, st))
        return out

    def describe(self):
        return ' & '.join(('' if p else 'not ') + norm(e)[:40] for e, p in self.conds) or 'always'


def atoms(test, want):
    """ways in which `test` can evaluate to `want`: list of [(atom, polarity), ...] in short-circuit order"""
    if isinstance(test, ast.UnaryOp) and isinstance(test.op, ast.Not):
        return atoms(test.operand, not want)
    if isinstance(test, ast.BoolOp):
        is_and = isinstance(test.op, ast.And)
        vals = test.values
        if is_and == want:
            # all operands `want`
            out = [[]]
            for v in vals:
                out = [a + b for a in out for b in atoms(v, want)]
            return out
        # some operand `want` after all earlier ones were `not want`
        out = []
        prefix = [[]]
        for v in vals:
            for pre in prefix:
                for b in atoms(v, want):
                    out.append(pre + b)
            prefix = [a + b for a in prefix for b in atoms(v, not want)]
        return out
    if isinstance(test, ast.Compare) and len(test.ops) == 1 and type(test.ops[0]) in NEG_CMP:
        pos = ast.copy_location(ast.Compare(left=test.left, ops=[NEG_CMP[type(test.ops[0])]()], comparators=test.comparators), test)
        return [[(pos, not want)]]
    if isinstance(test, ast.Constant):
        return [[]] if bool(test.value) == want else []
    return [[(test, want)]]


def _first_ifexp(node):
    for n in ast.walk(node):
        if isinstance(n, ast.IfExp):
            return n
        if isinstance(n, (ast.Lambda, ast.ListComp, ast.SetComp, ast.DictComp, ast.GeneratorExp)) and n is not node:
            # conditional expressions evaluated per element / lazily are not decisions of this path
            pass
    return None


def _ifexps_outside_lazy(node):
    out = []
    todo = [node]
    while todo:
        n = todo.pop(0)
        if isinstance(n, ast.IfExp):
            out.append(n)
            continue
        if isinstance(n, (ast.Lambda, ast.ListComp, ast.SetComp, ast.DictComp, ast.GeneratorExp, ast.FunctionDef, ast.ClassDef)) and n is not node:
            continue
        todo.extend(ast.iter_child_nodes(n))
    return out


def _replace(root, old, new):
    """deep copy of root with node `old` replaced by a copy of `new`"""
    memo = {}

    def cp(n):
        if n is old:
            m = cp2(new)
            m._ifexp = old           # the branch stands where the conditional expression stood
            return m
        return cp2(n)

    def cp2(n):
        if isinstance(n, list):
            return [cp(x) for x in n]
        if not isinstance(n, ast.AST):
            return n
        m = type(n)()
        for f, v in ast.iter_fields(n):
            setattr(m, f, cp(v) if isinstance(v, (ast.AST, list)) else v)
        for a in ('lineno', 'col_offset', 'end_lineno', 'end_col_offset', '_ifexp'):
            if hasattr(n, a):
                setattr(m, a, getattr(n, a))
        return m
    return cp(root)


def split_simple(st):
    """a simple statement -> [(conds, statement with its conditional expressions resolved)]"""
    ies = _ifexps_outside_lazy(st)
    if not ies:
        return [([], st)]
    ie = ies[0]
    out = []
    for want, branch in ((True, ie.body), (False, ie.orelse)):
        for cs in atoms(ie.test, want):
            new = _replace(st, ie, branch)
            for cs2, st2 in split_simple(new):
                out.append((cs + cs2, st2))
    return out


def enumerate_paths(body, limit=2048, relevant=None):
    """relevant: optional predicate on If statements; an If for which it is false is kept whole as one opaque element (like a loop)"""
    paths = _block(body, [Path()], limit, relevant)
    for p in paths:
        if p.exit is None:
            p.exit = ('fall', None)
    return paths


def relevance(body, seeds, control=True):
    """-> predicate for enumerate_paths: an If matters when it contains a seed statement, (control) a return/break/continue, or binds
    a name that a seed, a relevant test or a statement feeding them reads (backward slice on names, to a fixpoint)"""
    seeds = list(seeds)
    seed_ids = set(id(x) for s_ in seeds for x in ast.walk(s_))
    needed = set(n.id for s_ in seeds for n in ast.walk(s_) if isinstance(n, ast.Name) and isinstance(n.ctx, ast.Load))
    ifs, simples = [], []
    todo = list(body)
    while todo:
        st = todo.pop()
        if isinstance(st, (ast.FunctionDef, ast.AsyncFunctionDef, ast.ClassDef)):
            continue
        if isinstance(st, ast.If):
            ifs.append(st)
        elif not isinstance(st, (ast.For, ast.While, ast.Try, ast.With)):
            simples.append(st)
        for fld in ('body', 'orelse', 'finalbody'):
            sub = getattr(st, fld, None)
            if isinstance(sub, list) and sub and isinstance(sub[0], ast.stmt):
                todo.extend(sub)
        for h in getattr(st, 'handlers', []) or []:
            todo.extend(h.body)
    rel = set()
    changed = True
    while changed:
        changed = False
        for st in simples:
            if id(st) in seed_ids:
                continue
            if _stored_names(st) & needed:
                reads = set(n.id for n in ast.walk(st) if isinstance(n, ast.Name) and isinstance(n.ctx, ast.Load))
                if not reads <= needed:
                    needed |= reads
                    changed = True
        for st in ifs:
            if id(st) in rel:
                continue
            inside = [x for part in st.body + st.orelse for x in ast.walk(part)]
            hit = any(id(x) in seed_ids for x in inside) or \
                (control and any(isinstance(x, (ast.Return, ast.Break, ast.Continue)) for x in inside)) or \
                bool(set(x.id for x in inside if isinstance(x, ast.Name) and isinstance(x.ctx, (ast.Store, ast.Del))) & needed)
            if hit:
                rel.add(id(st))
                needed |= set(n.id for n in ast.walk(st.test) if isinstance(n, ast.Name))
                changed = True
    return lambda st: id(st) in rel


def _block(body, paths, limit, relevant=None):
    for st in body:
        live = [p for p in paths if p.exit is None]
        done = [p for p in paths if p.exit is not None]
        if not live:
            return done
        paths = done + _stmt(st, live, limit, relevant)
        if len(paths) > limit:
            raise AnalysisError('construct not understood: more than %d paths' % limit)
    return paths


def _stmt(st, paths, limit, relevant=None):
    out = []
    if isinstance(st, ast.If) and relevant is not None and not relevant(st):
        return [p.extended(stmts=[st]) for p in paths]
    if isinstance(st, ast.If):
        for want, blk in ((True, st.body), (False, st.orelse)):
            for cs in atoms(st.test, want):
                # conditional expressions in the test itself
                start = [p.extended(conds=cs) for p in paths]
                out += _block(blk, start, limit, relevant)
        return out
    if isinstance(st, (ast.With, ast.AsyncWith)):
        cur = paths
        for it in st.items:
            e = ast.copy_location(ast.Expr(value=it.context_expr), st)
            if it.optional_vars is not None:
                e = ast.copy_location(ast.Assign(targets=[it.optional_vars], value=it.context_expr), st)
            cur = [p.extended(stmts=[e]) for p in cur]
        return _block(st.body, cur, limit, relevant)
    if isinstance(st, ast.Try):
        normal = _block(st.body, paths, limit, relevant)
        res = []
        cont = [p for p in normal if p.exit is None]
        res += [p for p in normal if p.exit is not None]
        if st.orelse:
            cont = _block(st.orelse, cont, limit, relevant)
        res += cont
        for h in st.handlers:
            # the body may have been left anywhere: the handler path carries none of its statements (a rule that needs them must
            # look at the normal path); the marker tells that a handler was taken
            mark = ast.copy_location(ast.Expr(value=ast.Constant(value='<except %s>' % (norm(h.type) if h.type is not None else ''))), h)
            res += _block(h.body, [p.extended(stmts=[mark]) for p in paths], limit, relevant)
        if st.finalbody:
            live = [p for p in res if p.exit is None]
            ended = [p for p in res if p.exit is not None]
            res = ended + _block(st.finalbody, live, limit, relevant)
        return res
    if isinstance(st, ast.Return):
        for p in paths:
            if st.value is None:
                q = p.extended()
                q.exit = ('return', None)
                out.append(q)
                continue
            for cs, st2 in split_simple(st):
                q = p.extended(conds=cs, stmts=[st2])        # the return statement is part of the path (its value may do the work)
                q.exit = ('return', st2.value)
                out.append(q)
        return out
    if isinstance(st, ast.Raise):
        for p in paths:
            q = p.extended()
            q.exit = ('raise', st)
            out.append(q)
        return out
    if isinstance(st, (ast.Break, ast.Continue)):
        for p in paths:
            q = p.extended()
            q.exit = ('break' if isinstance(st, ast.Break) else 'continue', None)
            out.append(q)
        return out
    if isinstance(st, (ast.For, ast.AsyncFor, ast.While, ast.FunctionDef, ast.AsyncFunctionDef, ast.ClassDef)):
        return [p.extended(stmts=[st]) for p in paths]
    for cs, st2 in split_simple(st):
        for p in paths:
            out.append(p.extended(conds=cs, stmts=[st2]))
    return out


def function_paths(fn, limit=2048):
    return enumerate_paths(fn.body, limit)


# ---------------------------------------------------------------------------------------------- forward substitution along a path
class _Sub(ast.NodeTransformer):
    def __init__(self, env):
        self.env = env

    def visit_Name(self, n):
        if isinstance(n.ctx, ast.Load) and n.id in self.env:
            return self.env[n.id]
        return n

    def _bound(self, n, names):
        hidden = [k for k in names if k in self.env]
        if not hidden:
            return self.generic_visit(n)
        keep = self.env
        self.env = dict((k, v) for k, v in keep.items() if k not in names)
        out = self.generic_visit(n)
        self.env = keep
        return out

    def visit_Lambda(self, n):
        a = n.args
        return self._bound(n, set(x.arg for x in a.posonlyargs + a.args + a.kwonlyargs))

    def _comp(self, n):
        names = set(x.id for g in n.generators for x in ast.walk(g.target) if isinstance(x, ast.Name))
        return self._bound(n, names)
    visit_ListComp = visit_SetComp = visit_DictComp = visit_GeneratorExp = _comp


def _size(e):
    return sum(1 for _ in ast.walk(e))


MUTATORS = ('append', 'extend', 'insert', 'pop', 'remove', 'clear', 'update', 'setdefault', 'popitem', 'sort', 'reverse', 'add', 'discard',
            'fill', 'resize', 'put', 'itemset', 'setflags', 'byteswap')


def mutated_names(nodes):
    """names whose object is changed in place somewhere in `nodes` (method call that mutates, item/attribute store, augmented
    assignment, del of an item): such a name is never replaced by its defining expression"""
    out = set()
    for root in nodes:
        for n in ast.walk(root):
            if isinstance(n, ast.Call) and isinstance(n.func, ast.Attribute) and isinstance(n.func.value, ast.Name) and n.func.attr in MUTATORS:
                out.add(n.func.value.id)
            elif isinstance(n, (ast.Subscript, ast.Attribute)) and isinstance(n.ctx, (ast.Store, ast.Del)) and isinstance(n.value, ast.Name):
                out.add(n.value.id)
            elif isinstance(n, ast.AugAssign) and isinstance(n.target, ast.Name):
                pass        # handled as a re-binding by the substitution itself
    return out


def is_access_path(e):
    """a name, or attribute / constant-or-name item steps from one: a local bound to it is an alias of that object, so replacing the
    local by the path is right even when the object is changed through it"""
    if isinstance(e, (ast.Name, ast.Constant)):
        return True
    if isinstance(e, ast.Attribute):
        return is_access_path(e.value)
    if isinstance(e, ast.Subscript) and isinstance(e.slice, (ast.Name, ast.Constant)):
        return is_access_path(e.value)
    return False


def _stored_names(node):
    return set(n.id for n in ast.walk(node) if isinstance(n, ast.Name) and isinstance(n.ctx, (ast.Store, ast.Del)))


PURE_CALLS = ('isinstance', 'hasattr', 'len', 'callable', 'getattr', 'type', 'tuple', 'list', 'str', 'int', 'float', 'bool', 'abs')


def _pure(e):
    for n in ast.walk(e):
        if isinstance(n, ast.Call) and not (isinstance(n.func, ast.Name) and n.func.id in PURE_CALLS):
            return False
    return True


def _const_truth(e):
    """truth value of an atom that is decided by constants alone, else None"""
    if isinstance(e, ast.Constant):
        return bool(e.value)
    if isinstance(e, ast.Compare) and len(e.ops) == 1 and isinstance(e.left, ast.Constant) and isinstance(e.comparators[0], ast.Constant):
        a, b = e.left.value, e.comparators[0].value
        op = e.ops[0]
        try:
            if isinstance(op, ast.Is):
                return (a is b) if (a is None or b is None or isinstance(a, bool) or isinstance(b, bool)) else None
            if isinstance(op, ast.Eq):
                return a == b
            if isinstance(op, ast.Lt):
                return a < b
            if isinstance(op, ast.Gt):
                return a > b
            if isinstance(op, ast.LtE):
                return a <= b
            if isinstance(op, ast.GtE):
                return a >= b
        except TypeError:
            return None
    if isinstance(e, ast.Compare) and len(e.ops) == 1 and isinstance(e.ops[0], ast.Is):
        # a freshly built object is never None
        a, b = e.left, e.comparators[0]
        for x, y in ((a, b), (b, a)):
            if isinstance(y, ast.Constant) and y.value is None and isinstance(x, (ast.List, ast.Tuple, ast.Dict, ast.Set, ast.ListComp, ast.DictComp, ast.JoinedStr)):
                return False
    return None


class Expanded(object):
    """result of expand(): .stmts [(statement, expanded statement)], .conds [(atom, expanded atom, polarity)], .env, .feasible"""

    def __init__(self):
        self.stmts, self.conds, self.env, self.feasible = [], [], {}, True
        self.ncond_at = []          # ncond_at[i]: how many entries of .conds were decided before statement i

    def __iter__(self):            # (pairs, env) unpacking
        return iter((self.stmts, self.env))

    def polarity(self, text):
        """polarity of the last decision whose *expanded* atom has this normalised text"""
        out = None
        for e, x, p in self.conds:
            if norm(x) == text:
                out = p
        return out


def expand(path, env=None, cap=1500, keep=()):
    """forward substitution of plain local assignments along the path.  Every local read is replaced by the expression that defines
    it on this path, in statements and in the decisions taken, so temporaries disappear: `a = f(x); b = a.size; d[k] = b` and
    `d[k] = f(x).size` expand to the same stored value.  A name whose definition is not a plain assignment on the path (loop
    variables, tuple unpacking, names assigned inside an opaque loop) stays a name.  A path is infeasible when an expanded decision
    is settled the other way by constants (`x = None ... if x is None` false) or contradicts an earlier identical pure decision."""
    env = dict(env or {})
    res = Expanded()
    decided = {}
    named = {}
    mutated = mutated_names(path.stmts)
    keep = set(keep)
    for item in path.items:
        if item[0] == 'cond':
            e, pol = item[1], item[2]
            x = _Sub(env).visit(clone(e)) if env else e
            # a decision on a named condition (`ok = a and b; if ok:`) is a decision on its parts when that is unambiguous
            alts = atoms(x, pol)
            parts = alts[0] if len(alts) == 1 else [(x, pol)]
            if not alts:
                res.feasible = False
            if isinstance(e, ast.Name):
                # the truth value of a local cannot change between two decisions unless it is rebound (whatever defined it)
                if e.id in named and named[e.id] != pol:
                    res.feasible = False
                named[e.id] = pol
            for x2, p2 in parts:
                res.conds.append((e, x2, p2))
                tv = _const_truth(x2)
                if tv is not None and tv != p2:
                    res.feasible = False
                if _pure(x2):
                    key = norm(x2)
                    if key in decided and decided[key] != p2:
                        res.feasible = False
                    decided[key] = p2
            continue
        st = item[1]
        if isinstance(st, (ast.For, ast.AsyncFor, ast.While, ast.If, ast.FunctionDef, ast.AsyncFunctionDef, ast.ClassDef)):
            # (an If arrives here only when it was kept opaque) expand what the loop reads from outside, then forget what it binds
            killed = _stored_names(st)
            if isinstance(st, (ast.FunctionDef, ast.AsyncFunctionDef, ast.ClassDef)):
                killed = set([st.name])
                new = st
            else:
                inner_env = dict((k, v) for k, v in env.items() if k not in killed)
                new = _Sub(inner_env).visit(clone(st)) if inner_env else st
            for k in killed:
                env.pop(k, None)
                named.pop(k, None)
            res.ncond_at.append(len(res.conds))
            res.stmts.append((st, new))
            decided = {}
            continue
        new = _Sub(env).visit(clone(st)) if env else clone(st)
        res.ncond_at.append(len(res.conds))
        res.stmts.append((st, new))
        for k in _stored_names(st):
            named.pop(k, None)
        if not _pure(st):
            decided = {}          # a call may change what an earlier decision looked at
        if isinstance(st, ast.Assign):
            for t in st.targets:
                if isinstance(t, ast.Name):
                    if _size(new.value) <= cap and t.id not in keep and (t.id not in mutated or is_access_path(st.value)):
                        env[t.id] = new.value
                    else:
                        env.pop(t.id, None)
                elif isinstance(t, (ast.Tuple, ast.List)) and all(isinstance(e, ast.Name) for e in t.elts) and _size(new.value) * len(t.elts) <= cap \
                        and not any(e.id in mutated or e.id in keep for e in t.elts):
                    # unpacking: element i of the value
                    for i, e in enumerate(t.elts):
                        if isinstance(new.value, (ast.Tuple, ast.List)) and len(new.value.elts) == len(t.elts):
                            env[e.id] = new.value.elts[i]
                        else:
                            env[e.id] = ast.Subscript(value=new.value, slice=ast.Constant(value=i), ctx=ast.Load())
                else:
                    for k in _stored_names(t):
                        env.pop(k, None)
            decided = dict((k, v) for k, v in decided.items() if not any(isinstance(t, ast.Name) and t.id in k for t in st.targets))
        elif isinstance(st, ast.AugAssign) and isinstance(st.target, ast.Name):
            cur = env.get(st.target.id, ast.Name(id=st.target.id, ctx=ast.Load()))
            val = ast.BinOp(left=cur, op=st.op, right=new.value)
            if _size(val) <= cap:
                env[st.target.id] = ast.copy_location(val, st)
            else:
                env.pop(st.target.id, None)
        else:
            for k in _stored_names(st):
                env.pop(k, None)
    res.env = env
    return res


def expanded_exit(path, env):
    if path.exit and path.exit[0] == 'return' and path.exit[1] is not None and env:
        return _Sub(env).visit(clone(path.exit[1]))
    return path.exit[1] if path.exit else None


# ------------------------------------------------------------------------------------- definitions that dominate a statement
def subst(expr, env):
    """copy of expr with every local read replaced by its defining expression in env"""
    return _Sub(env).visit(clone(expr)) if env else expr


def dominating_env(fn, stmt, cap=1500, keep=(), deep=True):
    """{name: fully substituted defining expression} for plain assignments `name = expr` that are executed, exactly once since the
    name was last bound, on every way to `stmt`: the assignments that precede it in its own block and in the enclosing blocks.
    Anything bound in between by another kind of statement (branches, loops, unpacking, with/for targets), or anywhere in a loop
    that encloses `stmt`, is left a name; so is a name whose object is changed in place anywhere in the function.
    deep=False: the defining expressions are kept as written (one level), for rules that resolve a name step by step."""
    chain = []
    node = stmt
    parent = {}
    for n in ast.walk(fn):
        for c in ast.iter_child_nodes(n):
            parent[id(c)] = n
    while node is not None and node is not fn:
        chain.append(node)
        node = parent.get(id(node))
    if node is not fn:
        raise AnalysisError('construct not understood: statement outside the function')
    chain.reverse()          # outermost statement first
    mutated = mutated_names([fn])
    keep = set(keep)
    env = {}
    owner = fn
    for inner in chain:
        if not isinstance(inner, ast.stmt):
            continue
        blk = None
        for fld in ('body', 'orelse', 'finalbody'):
            b = getattr(owner, fld, None)
            if isinstance(b, list) and inner in b:
                blk = b
        if blk is None:
            for h in getattr(owner, 'handlers', []) or []:
                if inner in h.body:
                    blk = h.body
        if blk is None:
            owner = inner
            continue
        if isinstance(owner, (ast.For, ast.AsyncFor, ast.While)):
            for k in _stored_names(owner):
                env.pop(k, None)
        for st in blk:
            if st is inner:
                break
            if isinstance(st, ast.Assign) and len(st.targets) == 1 and isinstance(st.targets[0], (ast.Tuple, ast.List)) and isinstance(st.value, (ast.Tuple, ast.List)) \
                    and len(st.value.elts) == len(st.targets[0].elts) and all(isinstance(t, ast.Name) for t in st.targets[0].elts):
                vals = [subst(v, env) if deep else v for v in st.value.elts]
                for t, val in zip(st.targets[0].elts, vals):
                    if _size(val) <= cap and t.id not in keep and (t.id not in mutated or is_access_path(val)):
                        env[t.id] = val
                    else:
                        env.pop(t.id, None)
            elif isinstance(st, ast.Assign) and len(st.targets) == 1 and isinstance(st.targets[0], (ast.Tuple, ast.List)) \
                    and all(isinstance(t, ast.Name) for t in st.targets[0].elts) and not isinstance(st.value, (ast.Tuple, ast.List)):
                # unpacking of a computed value: element i of it
                val = subst(st.value, env) if deep else st.value
                for i, t in enumerate(st.targets[0].elts):
                    if _size(val) * len(st.targets[0].elts) <= cap and t.id not in keep and t.id not in mutated:
                        env[t.id] = ast.Subscript(value=val, slice=ast.Constant(value=i), ctx=ast.Load())
                    else:
                        env.pop(t.id, None)
            elif isinstance(st, ast.Assign) and all(isinstance(t, ast.Name) for t in st.targets):
                val = subst(st.value, env) if deep else st.value
                for t in st.targets:
                    if _size(val) <= cap and t.id not in keep and (t.id not in mutated or is_access_path(st.value)):
                        env[t.id] = val
                    else:
                        env.pop(t.id, None)
            else:
                for k in _stored_names(st):
                    env.pop(k, None)
                if isinstance(st, (ast.FunctionDef, ast.AsyncFunctionDef, ast.ClassDef)):
                    env.pop(st.name, None)
        owner = inner
    if isinstance(owner, (ast.For, ast.AsyncFor, ast.While)) and owner is not stmt:
        for k in _stored_names(owner):
            env.pop(k, None)
    return env


def replacements(orig, new, name):
    """expressions that stand, in the substituted statement `new`, where `orig` reads the local `name`"""
    out = []

    def go(a, b):
        if isinstance(a, ast.Name) and a.id == name and isinstance(a.ctx, ast.Load):
            out.append(b)
            return
        if isinstance(a, list) and isinstance(b, list) and len(a) == len(b):
            for x, y in zip(a, b):
                go(x, y)
            return
        if isinstance(a, ast.AST) and isinstance(b, ast.AST) and type(a) is type(b):
            for (f, x), (g, y) in zip(ast.iter_fields(a), ast.iter_fields(b)):
                if isinstance(x, (ast.AST, list)):
                    go(x, y)
    go(orig, new)
    # a conditional expression that tested the name and was resolved on this path: the branch taken stands for it
    for n in ast.walk(new):
        ie = getattr(n, '_ifexp', None)
        if ie is not None and any(isinstance(x, ast.Name) and x.id == name for x in ast.walk(ie.test)):
            out.append(n)
    return out


def stores_by_path(fn, keep=()):
    """{access path text: [(value text, statement)]} for every item store whose key is a string constant, with the local aliases in
    the path and in the value replaced by what they stand for (`h = rec['header']; h['a'] = h['b'] = 4` stores 4 under
    rec['header']['a'] and rec['header']['b'])"""
    from .engine import iter_stmts
    out = {}
    for st in iter_stmts(fn.body):
        if not isinstance(st, ast.Assign):
            continue
        tg = [t for t in st.targets if isinstance(t, ast.Subscript)]
        # item stores, also `x[k][...] = v`
        tg = [t.value if (isinstance(t.slice, ast.Constant) and t.slice.value is Ellipsis and isinstance(t.value, ast.Subscript)) else t for t in tg]
        tg = [t for t in tg if isinstance(t.slice, ast.Constant) and isinstance(t.slice.value, str)]
        if not tg:
            continue
        env = dominating_env(fn, st, keep=keep)
        val = norm(subst(st.value, env))
        for t in tg:
            out.setdefault(norm(subst(t, env)), []).append((val, st))
    return out
