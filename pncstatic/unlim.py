"""R-UNLIM: the unlimited flag is propagated at every re-creation of a surviving dimension."""
import ast

from .engine import dotted, iter_stmts, norm, walk_expr, const_str, parent_chain


def _block_of(stmt):
    p = getattr(stmt, '_parent', None)
    for fld in ('body', 'orelse', 'finalbody'):
        b = getattr(p, fld, None)
        if isinstance(b, list) and stmt in b:
            return b
    for h in getattr(p, 'handlers', []) or []:
        if stmt in h.body:
            return h.body
    return None


def derived_from_isunlimited(fn, name):
    for st in iter_stmts(fn.body):
        if isinstance(st, ast.Assign) and any(isinstance(t, ast.Name) and t.id == name for t in st.targets):
            if _calls_isunlimited(st.value):
                return True
    return False


def create_dim_sites(fn):
    """-> list of (call, stmt) for X.createDimension(K, L) calls (not the definition itself)"""
    out = []
    for st in iter_stmts(fn.body):
        for e in own_exprs(st):
            for c in walk_expr(e):
                if isinstance(c, ast.Call) and isinstance(c.func, ast.Attribute) and c.func.attr == 'createDimension' and len(c.args) >= 2:
                    out.append((c, st))
    return out


def own_exprs(st):
    """expressions evaluated by the statement itself (not by statements nested in it)"""
    if isinstance(st, (ast.If, ast.While)):
        return [st.test]
    if isinstance(st, (ast.For, ast.AsyncFor)):
        return [st.iter]
    if isinstance(st, (ast.With, ast.AsyncWith)):
        return [i.context_expr for i in st.items]
    if isinstance(st, (ast.Try, ast.FunctionDef, ast.ClassDef, ast.AsyncFunctionDef)):
        return []
    return [st]


def survives(fn, call, stmt):
    """Does the created key survive from a source object? returns source text or None"""
    k = call.args[0]
    recv = norm(call.func.value)
    ktxt = norm(k)
    # (a) loop key over S.dimensions
    for p in parent_chain(stmt):
        if isinstance(p, (ast.For,)):
            it = norm(p.iter)
            tg = p.target
            knames = []
            if isinstance(tg, ast.Tuple) and tg.elts and isinstance(tg.elts[0], ast.Name):
                knames = [tg.elts[0].id]
            elif isinstance(tg, ast.Name):
                knames = [tg.id]
            if isinstance(k, ast.Name) and k.id in knames:
                import re
                m = re.match(r'^([\w\.]+)\.dimensions(\.items\(\)|\.keys\(\))?$', it)
                if m:
                    if m.group(1) != recv:
                        return m.group(1)
                # a local dict whose keys were taken from a loop over S.dimensions
                m2 = re.match(r'^(\w+)(\.items\(\)|\.keys\(\))?$', it)
                if m2:
                    dname = m2.group(1)
                    for lp in iter_stmts(fn.body):
                        if isinstance(lp, ast.For):
                            m3 = re.match(r'^([\w\.]+)\.dimensions(\.items\(\)|\.keys\(\))?$', norm(lp.iter))
                            if not m3 or m3.group(1) == recv:
                                continue
                            lk = lp.target.elts[0].id if isinstance(lp.target, ast.Tuple) and isinstance(lp.target.elts[0], ast.Name) else \
                                (lp.target.id if isinstance(lp.target, ast.Name) else None)
                            for s2 in iter_stmts(lp.body):
                                if isinstance(s2, ast.Assign) and isinstance(s2.targets[0], ast.Subscript) \
                                        and isinstance(s2.targets[0].value, ast.Name) and s2.targets[0].value.id == dname \
                                        and isinstance(s2.targets[0].slice, ast.Name) and s2.targets[0].slice.id == lk:
                                    return m3.group(1)
                # the nearest loop that binds the key decides (an inner zip over new names shadows it)
                return None
        if p is fn:
            break
    # (c) the receiver was bulk-filled from a source earlier (addDimensions(S, R)): re-creating a key replaces a copied dimension
    if not (isinstance(k, ast.Constant)):
        for st in iter_stmts(fn.body):
            if st.lineno >= stmt.lineno:
                continue
            if isinstance(st, ast.Expr) and isinstance(st.value, ast.Call) and isinstance(st.value.func, ast.Attribute) \
                    and st.value.func.attr == 'addDimensions' and len(st.value.args) == 2 and norm(st.value.args[1]) == recv:
                # only keys that index the sources' dimension tables somewhere in the function
                if any(isinstance(n, ast.Subscript) and norm(n.slice) == ktxt and isinstance(n.ctx, ast.Load) for n in walk_expr(fn)):
                    return norm(st.value.args[0])
    # (b) the function reads S.dimensions[K] for another object S
    for n in walk_expr(fn):
        if isinstance(n, ast.Subscript) and isinstance(n.value, ast.Attribute) and n.value.attr == 'dimensions' \
                and norm(n.slice) == ktxt and isinstance(n.ctx, ast.Load):
            src = norm(n.value.value)
            if src != recv:
                return src
    return None


def flag_propagated(fn, call, stmt):
    """accepted idioms (DESIGN appendix A)"""
    # chained: X.createDimension(...).setunlimited(E)
    par = getattr(call, '_parent', None)
    if isinstance(par, ast.Attribute) and par.attr == 'setunlimited':
        gp = getattr(par, '_parent', None)
        if isinstance(gp, ast.Call) and gp.args and _flag_expr_ok(fn, gp.args[0]):
            return 'chained setunlimited(%s)' % norm(gp.args[0])[:50]
    # bound name
    name = None
    if isinstance(stmt, ast.Assign) and stmt.value is call:
        for t in stmt.targets:
            if isinstance(t, ast.Name):
                name = t.id
    if name is None:
        return None
    block = _block_of(stmt)
    if block is None:
        return None
    after = block[block.index(stmt) + 1:]
    for st in after:
        # unconditional: name.setunlimited(E)
        if isinstance(st, ast.Expr) and isinstance(st.value, ast.Call) and dotted(st.value.func) == name + '.setunlimited' \
                and st.value.args and _flag_expr_ok(fn, st.value.args[0]):
            return 'setunlimited(%s)' % norm(st.value.args[0])[:50]
        # if u: name.setunlimited(True)
        if isinstance(st, ast.If) and _flag_expr_ok(fn, st.test):
            for s2 in st.body:
                if isinstance(s2, ast.Expr) and isinstance(s2.value, ast.Call) and dotted(s2.value.func) == name + '.setunlimited' \
                        and s2.value.args and isinstance(s2.value.args[0], ast.Constant) and s2.value.args[0].value is True:
                    return 'if %s: setunlimited(True)' % norm(st.test)[:40]
        # rebinding of the name ends the search
        if isinstance(st, ast.Assign) and any(isinstance(t, ast.Name) and t.id == name for t in st.targets):
            break
    return None


def _calls_isunlimited(e):
    """the expression calls .isunlimited(); a bare reference to the bound method (always truthy) does not count"""
    called = [n for n in ast.walk(e) if isinstance(n, ast.Call) and isinstance(n.func, ast.Attribute) and n.func.attr == 'isunlimited']
    funcs = set(id(n.func) for n in called)
    bare = [n for n in ast.walk(e) if isinstance(n, ast.Attribute) and n.attr == 'isunlimited' and id(n) not in funcs]
    return bool(called) and not bare


def _flag_expr_ok(fn, e):
    if _calls_isunlimited(e):
        return True
    if isinstance(e, ast.Name) and derived_from_isunlimited(fn, e.id):
        return True
    return False
