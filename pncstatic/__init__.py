"""pncstatic - repository-specific static checkers for PseudoNetCDF (see /verif/DESIGN.md)."""
