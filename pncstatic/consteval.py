"""A small evaluator of pure expressions over constants (tuples, strings, integers, booleans): the checker's own model for
finite case analyses.  No repository code runs; anything outside the modelled fragment evaluates to UNK."""
import ast

UNK = 'UNK?'
STR_METHODS = ('strip', 'lstrip', 'rstrip', 'split', 'rsplit', 'replace', 'lower', 'upper', 'startswith', 'endswith', 'join', 'ljust', 'rjust', 'zfill', 'isdigit', 'isalpha', 'isnumeric', 'isdecimal', 'isalnum')


def dotted_name(n):
    parts = []
    while isinstance(n, ast.Attribute):
        parts.append(n.attr)
        n = n.value
    if isinstance(n, ast.Name):
        parts.append(n.id)
        return '.'.join(reversed(parts))
    return None


import math
NP_SCALAR = {'np.sum': lambda x: sum(x), 'sum': lambda x: sum(x), 'np.any': lambda x: any(x), 'any': lambda x: any(x), 'all': lambda x: all(x), 'np.floor': math.floor, 'np.ceil': math.ceil, 'np.log10': math.log10, 'np.minimum': min, 'np.maximum': max, 'np.abs': abs, 'np.sqrt': math.sqrt,
             'np.round': round, 'float': float, 'abs': abs, 'min': min, 'max': max, 'round': round, 'divmod': divmod}


def ev(e, env, hook=None):
    if hook is not None:
        h = hook(e)
        if h is not None:
            return h
    return _ev(e, env, hook)


def _ev(e, env, hook):
    if isinstance(e, ast.Constant):
        return e.value
    if isinstance(e, ast.Name):
        return env.get(e.id, UNK)
    if isinstance(e, (ast.Tuple, ast.List)):
        vals = [ev(x, env, hook) for x in e.elts]
        if any(v is UNK for v in vals):
            return UNK
        return tuple(vals) if isinstance(e, ast.Tuple) else list(vals)
    if isinstance(e, ast.Dict) and all(k is not None for k in e.keys):
        ks = [ev(k, env, hook) for k in e.keys]
        vs = [ev(v, env, hook) for v in e.values]
        if any(x is UNK for x in ks + vs):
            return UNK
        try:
            return dict(zip(ks, vs))
        except TypeError:
            return UNK
    if isinstance(e, ast.BinOp):
        a, b = ev(e.left, env, hook), ev(e.right, env, hook)
        if a is UNK or b is UNK:
            return UNK
        try:
            if isinstance(e.op, ast.Add):
                return a + b
            if isinstance(e.op, ast.Sub):
                return a - b
            if isinstance(e.op, ast.Mult):
                return a * b
            if isinstance(e.op, ast.FloorDiv):
                return a // b
            if isinstance(e.op, ast.Div):
                return a / b
            if isinstance(e.op, ast.Mod):
                return a % b
        except Exception:
            return UNK
        return UNK
    if isinstance(e, ast.BoolOp):
        out = None
        for i, x in enumerate(e.values):
            v = ev(x, env, hook)
            if v is UNK:
                return UNK
            out = v
            if isinstance(e.op, ast.Or) and v:
                return v
            if isinstance(e.op, ast.And) and not v:
                return v
        return out
    if isinstance(e, ast.UnaryOp):
        v = ev(e.operand, env, hook)
        if v is UNK:
            return UNK
        if isinstance(e.op, ast.Not):
            return not v
        if isinstance(e.op, ast.USub):
            return -v
        return UNK
    if isinstance(e, ast.IfExp):
        t = ev(e.test, env, hook)
        if t is UNK:
            return UNK
        return ev(e.body if t else e.orelse, env, hook)
    if isinstance(e, ast.Compare):
        left = ev(e.left, env, hook)
        for op, c in zip(e.ops, e.comparators):
            right = ev(c, env, hook)
            if left is UNK or right is UNK:
                return UNK
            try:
                r = {ast.Eq: lambda: left == right, ast.NotEq: lambda: left != right, ast.Lt: lambda: left < right, ast.LtE: lambda: left <= right,
                     ast.Gt: lambda: left > right, ast.GtE: lambda: left >= right, ast.In: lambda: left in right, ast.NotIn: lambda: left not in right,
                     ast.Is: lambda: left is right, ast.IsNot: lambda: left is not right}[type(op)]()
            except Exception:
                return UNK
            if not r:
                return False
            left = right
        return True
    if isinstance(e, ast.Subscript):
        b = ev(e.value, env, hook)
        if b is UNK:
            return UNK
        s = e.slice
        try:
            if isinstance(s, ast.Slice):
                lo = ev(s.lower, env, hook) if s.lower is not None else None
                hi = ev(s.upper, env, hook) if s.upper is not None else None
                stp = ev(s.step, env, hook) if s.step is not None else None
                if UNK in (lo, hi, stp):
                    return UNK
                return b[slice(lo, hi, stp)]
            i = ev(s, env, hook)
            if i is UNK:
                return UNK
            return b[i]
        except Exception:
            return UNK
    if isinstance(e, ast.Call) and isinstance(e.func, ast.Name) and e.func.id in ('len', 'tuple', 'list', 'set', 'bool', 'int', 'str') and len(e.args) == 1 \
            and not e.keywords:
        v = ev(e.args[0], env, hook)
        if v is UNK:
            return UNK
        try:
            return {'len': len, 'tuple': tuple, 'list': list, 'set': set, 'bool': bool, 'int': int, 'str': str}[e.func.id](v)
        except Exception:
            return UNK
    if isinstance(e, ast.Call) and isinstance(e.func, ast.Attribute) and e.func.attr in ('startswith', 'endswith') and len(e.args) == 1:
        b, a = ev(e.func.value, env, hook), ev(e.args[0], env, hook)
        if b is UNK or a is UNK or not isinstance(b, str):
            return UNK
        return getattr(b, e.func.attr)(a)
    if isinstance(e, ast.Call) and isinstance(e.func, ast.Attribute) and e.func.attr in STR_METHODS and not e.keywords:
        b = ev(e.func.value, env, hook)
        args = [ev(a, env, hook) for a in e.args]
        if b is UNK or any(a is UNK for a in args) or not isinstance(b, str):
            return UNK
        try:
            return getattr(b, e.func.attr)(*args)
        except Exception:
            return UNK
    # list comprehension / generator over a constant sequence (one generator, name or tuple-of-names target)
    if isinstance(e, (ast.ListComp, ast.GeneratorExp)) and len(e.generators) == 1:
        g = e.generators[0]
        seq = ev(g.iter, env, hook)
        if seq is UNK or not isinstance(seq, (list, tuple)):
            return UNK
        out = []
        for item in seq:
            env2 = dict(env)
            if isinstance(g.target, ast.Name):
                env2[g.target.id] = item
            elif isinstance(g.target, ast.Tuple) and all(isinstance(t, ast.Name) for t in g.target.elts) and isinstance(item, (tuple, list)) \
                    and len(item) == len(g.target.elts):
                for t, x in zip(g.target.elts, item):
                    env2[t.id] = x
            else:
                return UNK
            keep = True
            for c in g.ifs:
                v = ev(c, env2, hook)
                if v is UNK:
                    return UNK
                keep = keep and bool(v)
            if keep:
                v = ev(e.elt, env2, hook)
                if v is UNK:
                    return UNK
                out.append(v)
        return out
    # scalar numpy functions modelled by the math module (the checker's own arithmetic on constants)
    if isinstance(e, ast.Call) and dotted_name(e.func) in NP_SCALAR and not e.keywords:
        args = [ev(a, env, hook) for a in e.args]
        if any(a is UNK for a in args):
            return UNK
        try:
            return NP_SCALAR[dotted_name(e.func)](*args)
        except Exception:
            return UNK
    if isinstance(e, ast.Call) and isinstance(e.func, ast.Attribute) and e.func.attr in ('values', 'keys', 'items', 'get') and not e.keywords:
        b = ev(e.func.value, env, hook)
        args = [ev(a, env, hook) for a in e.args]
        if b is UNK or not isinstance(b, dict) or any(a is UNK for a in args):
            return UNK
        try:
            r_ = getattr(b, e.func.attr)(*args)
            return r_ if e.func.attr == 'get' else list(r_)
        except Exception:
            return UNK
    # regular expressions on constants: Python's re is part of the trusted base (pattern and subject are constants)
    if isinstance(e, ast.Call) and isinstance(e.func, ast.Attribute) and e.func.attr in ('match', 'search') and len(e.args) == 1 \
            and isinstance(e.func.value, ast.Call) and isinstance(e.func.value.func, ast.Attribute) and e.func.value.func.attr == 'compile' \
            and isinstance(e.func.value.func.value, ast.Name) and e.func.value.func.value.id == 're' and len(e.func.value.args) == 1:
        pat, subj = ev(e.func.value.args[0], env, hook), ev(e.args[0], env, hook)
        if pat is UNK or subj is UNK or not isinstance(pat, str) or not isinstance(subj, str):
            return UNK
        import re
        try:
            return getattr(re.compile(pat), e.func.attr)(subj)
        except Exception:
            return UNK
    if isinstance(e, ast.Call) and isinstance(e.func, ast.Attribute) and e.func.attr in ('groups', 'group') and not e.keywords:
        b = ev(e.func.value, env, hook)
        args = [ev(a, env, hook) for a in e.args]
        if b is UNK or b is None or any(a is UNK for a in args) or type(b).__name__ != 'Match':
            return UNK
        return getattr(b, e.func.attr)(*args)
    if isinstance(e, ast.Call) and isinstance(e.func, ast.Name) and e.func.id == 'hasattr' and len(e.args) == 2:
        b, a = ev(e.args[0], env, hook), ev(e.args[1], env, hook)
        if b is UNK or a is UNK:
            return UNK
        return hasattr(b, a)
    return UNK


def run_block(stmts, env, hook=None, want_env=False):
    """straight-line interpretation of assignments / decidable ifs / try bodies up to the first return; -> value or UNK"""
    env = dict(env)

    def go(stmts):
        for st in stmts:
            if isinstance(st, ast.Assign) and len(st.targets) == 1 and isinstance(st.targets[0], ast.Name):
                env[st.targets[0].id] = ev(st.value, env, hook)
            elif isinstance(st, ast.Assign) and len(st.targets) == 1 and isinstance(st.targets[0], ast.Tuple) \
                    and all(isinstance(t, ast.Name) for t in st.targets[0].elts):
                v = ev(st.value, env, hook)
                names = [t.id for t in st.targets[0].elts]
                if v is UNK or not isinstance(v, (tuple, list)) or len(v) != len(names):
                    for nm in names:
                        env[nm] = UNK
                else:
                    for nm, x in zip(names, v):
                        env[nm] = x
            elif isinstance(st, ast.If):
                t = ev(st.test, env, hook)
                if t is UNK:
                    return ('ret', UNK)
                r = go(st.body if t else st.orelse)
                if r is not None:
                    return r
            elif isinstance(st, ast.Try):
                r = go(st.body)
                if r is not None:
                    return r
            elif isinstance(st, ast.Raise):
                env['$raised'] = True
                return ('ret', 'RAISE')
            elif isinstance(st, ast.Return):
                return ('ret', ev(st.value, env, hook) if st.value is not None else None)
            elif isinstance(st, ast.Expr) and isinstance(st.value, ast.Call) and isinstance(st.value.func, ast.Attribute) and st.value.func.attr == 'append' \
                    and isinstance(st.value.func.value, ast.Name) and len(st.value.args) == 1:
                nm = st.value.func.value.id
                v = ev(st.value.args[0], env, hook)
                cur = env.get(nm, UNK)
                env[nm] = UNK if (v is UNK or cur is UNK or not isinstance(cur, list)) else cur + [v]
            elif isinstance(st, (ast.Expr, ast.Pass, ast.Import, ast.ImportFrom)):
                continue
            else:
                return ('ret', UNK)
        return None
    r = go(stmts)
    if want_env:
        return UNK if (r is not None and r[1] is UNK) else env
    return UNK if r is None else r[1]
