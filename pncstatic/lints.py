"""Reusable repository-specific lints (each is exact on what it reports; unknown forms are left undecided)."""
import ast
import re

from .engine import dotted, iter_stmts, norm, walk_expr, const_str, kw

MASK_DROPPERS = ('asarray', 'array', 'ascontiguousarray', 'resize', 'append', 'insert', 'delete', 'pad', 'broadcast_to')   # np.<f>(masked) returns data without its mask (calibrated)


def drops_mask(e):
    """first sub-expression of e that converts a MaskedArray into a plain array (frozen numpy facts)"""
    for n in walk_expr(e):
        if isinstance(n, ast.Call):
            d = dotted(n.func) or ''
            last = d.split('.')[-1]
            if last in MASK_DROPPERS and (d.startswith('np.') or d.startswith('numpy.') or '.' not in d) and not d.startswith(('np.ma.', 'numpy.ma.')):
                return n
            if d in ('np.ma.filled', 'np.ma.getdata', 'numpy.ma.filled', 'filled', 'np.concatenate', 'numpy.concatenate', 'np.stack', 'np.vstack', 'np.hstack'):
                return n
            if isinstance(n.func, ast.Attribute) and n.func.attr == 'view' and ((n.args and dotted(n.args[0]) in ('np.ndarray', 'numpy.ndarray', 'ndarray')) or
                                                                                  (kw(n, 'type') is not None and dotted(kw(n, 'type')) in ('np.ndarray', 'numpy.ndarray', 'ndarray'))):
                return n
            if isinstance(n.func, ast.Attribute) and n.func.attr in ('filled', 'compressed'):
                return n
        if isinstance(n, ast.Attribute) and n.attr == 'data' and isinstance(n.ctx, ast.Load):
            return n
    return None


def rebinding_chain(fn, name, after_line=0):
    """all assignments `name = <expr>` in fn after a line, in source order"""
    return [st for st in iter_stmts(fn.body) if isinstance(st, ast.Assign) and len(st.targets) == 1 and isinstance(st.targets[0], ast.Name)
            and st.targets[0].id == name and st.lineno > after_line]


def verbatim(fn, name, first_def_pred, allowed_in_handler=('TypeError',)):
    """The value bound to *name* by the definition matching first_def_pred must reach its uses unchanged:
    returns the list of later rebindings of *name* that are not inside an accepted `except <allowed>` handler."""
    defs = [st for st in iter_stmts(fn.body) if isinstance(st, ast.Assign) and len(st.targets) == 1 and isinstance(st.targets[0], ast.Name)
            and st.targets[0].id == name]
    first = [d for d in defs if first_def_pred(d)]
    if not first:
        return None
    out = []
    for d in defs:
        if d in first:
            continue
        p = getattr(d, '_parent', None)
        in_handler = False
        while p is not None and p is not fn:
            if isinstance(p, ast.ExceptHandler):
                in_handler = True
            p = getattr(p, '_parent', None)
        if in_handler:
            continue
        # alternative first definitions in try/except fall-backs of the same kind are fine
        if first_def_pred(d):
            continue
        out.append(d)
    return out


def param_dead_stores(fn):
    """re-assignments of a *parameter* whose new value is never read afterwards (the resolved value is ignored)"""
    params = set(a.arg for a in fn.args.posonlyargs + fn.args.args + fn.args.kwonlyargs)
    out = []
    loads = [(n.lineno, n.id) for n in walk_expr(fn) if isinstance(n, ast.Name) and isinstance(n.ctx, ast.Load)]
    for st in iter_stmts(fn.body):
        if isinstance(st, ast.Assign) and len(st.targets) == 1 and isinstance(st.targets[0], ast.Name) and st.targets[0].id in params:
            nm = st.targets[0].id
            end = getattr(st, 'end_lineno', st.lineno)
            later = [l for l, i in loads if i == nm and l > end]
            # inside a loop earlier loads also count
            p = getattr(st, '_parent', None)
            inloop = False
            while p is not None and p is not fn:
                if isinstance(p, (ast.For, ast.While)):
                    inloop = True
                p = getattr(p, '_parent', None)
            if not later and not inloop:
                out.append(st)
    return out


def truthy_optional_guards(fn, names):
    """`if not x:` / `if x:` used as the 'was it given?' test of an optional numeric parameter (0 is a valid value)"""
    out = []
    for st in iter_stmts(fn.body):
        if isinstance(st, ast.If):
            t = st.test
            neg = isinstance(t, ast.UnaryOp) and isinstance(t.op, ast.Not)
            core = t.operand if neg else t
            if isinstance(core, ast.Name) and core.id in names:
                # the body assigns a default to the same name => it is a 'was it given' test
                assigns = [s for s in st.body if isinstance(s, ast.Assign) and isinstance(s.targets[0], ast.Name) and s.targets[0].id == core.id]
                if neg and assigns:
                    out.append(st)
        # x = x or <default>   /   x = x if x else <default>
        if isinstance(st, ast.Assign) and len(st.targets) == 1 and isinstance(st.targets[0], ast.Name) and st.targets[0].id in names:
            v = st.value
            nm = st.targets[0].id
            if isinstance(v, ast.BoolOp) and isinstance(v.op, ast.Or) and isinstance(v.values[0], ast.Name) and v.values[0].id == nm:
                out.append(st)
            if isinstance(v, ast.IfExp) and isinstance(v.test, ast.Name) and v.test.id == nm:
                out.append(st)
    return out


def loop_invariant_axes(fn):
    """inside a loop over X.variables, an axis index that is derived from `<var>.dimensions` must be computed in the
    loop from the current variable; returns (use node, name, definition stmt) for axis names defined under a
    once-only guard or outside the loop"""
    out = []
    for lp in iter_stmts(fn.body):
        if not isinstance(lp, ast.For):
            continue
        it = norm(lp.iter)
        if '.variables' not in it:
            continue
        body_stmts = list(iter_stmts(lp.body))
        for st in body_stmts:
            for c in walk_expr(st) if not isinstance(st, (ast.For, ast.If, ast.While, ast.Try, ast.With)) else []:
                names = []
                if isinstance(c, ast.Call):
                    a = kw(c, 'axis')
                    if isinstance(a, ast.Name):
                        names.append(a.id)
                    if isinstance(c.func, ast.Attribute) and c.func.attr in ('swapaxes', 'take', 'rollaxis', 'moveaxis'):
                        names += [x.id for x in c.args if isinstance(x, ast.Name)]
                if isinstance(c, ast.Subscript) and isinstance(c.value, ast.Attribute) and c.value.attr == 'shape' and isinstance(c.slice, ast.Name):
                    names.append(c.slice.id)
                for nm in names:
                    defs = [d for d in iter_stmts(fn.body) if isinstance(d, ast.Assign) and any(isinstance(t, ast.Name) and t.id == nm for t in d.targets)
                            and '.dimensions' in norm(d.value) and '.index(' in norm(d.value)]
                    if not defs:
                        continue
                    for d in defs:
                        inside = d in body_stmts
                        guarded_once = False
                        p = getattr(d, '_parent', None)
                        while p is not None and p is not lp and p is not fn:
                            if isinstance(p, ast.If) and re.search(r'\b%s is None\b' % re.escape(nm), norm(p.test)):
                                guarded_once = True
                            p = getattr(p, '_parent', None)
                        if not inside or guarded_once:
                            out.append((c, nm, d))
    return out


_FIELDS = ['%Y', '%m', '%d', '%H', '%M', '%S']


def strptime_field_gaps(fmt):
    """date-time fields of a strptime format must be a prefix of Y m d H M S (or use %j for the day of year);
    returns the skipped field, e.g. '%M' for '%Y-%m-%d %H:%S'"""
    toks = re.findall(r'%[A-Za-z]', fmt)
    seq = [t for t in toks if t in _FIELDS or t == '%j']
    if '%j' in seq:
        seq = ['%m' if t == '%j' else t for t in seq]
        seq.insert(seq.index('%m') + 1, '%d')
    have = [f for f in _FIELDS if f in seq]
    for i, f in enumerate(_FIELDS):
        if f in have:
            missing = [g for g in _FIELDS[:i] if g not in have]
            if missing:
                return missing[0]
    return None


_ALIAS_METHODS = ('view', 'reshape', 'ravel', 'squeeze', 'swapaxes', 'transpose')
_ARRAY_METHODS = ('astype', 'copy', 'filled', 'ravel', 'reshape', 'view', 'squeeze', 'swapaxes', 'transpose', 'sum', 'cumsum', 'repeat', 'take')


def _alias_of(e):
    """name that the value of e shares storage with (Name, basic slice of a name, .T/.view()/reshape of it) or None"""
    if isinstance(e, ast.Name):
        return e.id
    if isinstance(e, ast.Subscript) and not isinstance(e.slice, (ast.List, ast.ListComp)):
        return _alias_of(e.value)
    if isinstance(e, ast.Attribute) and e.attr == 'T':
        return _alias_of(e.value)
    if isinstance(e, ast.Call) and isinstance(e.func, ast.Attribute) and e.func.attr in _ALIAS_METHODS:
        return _alias_of(e.func.value)
    if isinstance(e, ast.Call) and dotted(e.func) in ('np.asarray', 'np.asanyarray', 'asarray', 'np.atleast_1d'):
        return _alias_of(e.args[0]) if e.args else None
    return None


def _arraylike(e, arrays):
    for n in ast.walk(e):
        if isinstance(n, ast.Attribute) and n.attr == 'variables':
            return True
        if isinstance(n, ast.Call) and ((dotted(n.func) or '').startswith('np.') or (isinstance(n.func, ast.Attribute) and n.func.attr in _ARRAY_METHODS)
                                        or dotted(n.func) in ('array', 'zeros', 'ones', 'arange', 'asarray')):
            return True
        if isinstance(n, ast.Name) and n.id in arrays:
            return True
    return False


def alias_inplace(fn):
    """`a = b` (or a view of b) followed by an in-place update of a (`a += ..`, `a[..] = ..`) while b, an array, is still read
    afterwards: the update also changes b.  -> [(aug stmt, alias name, original name, later read stmt)]"""
    out = []
    alias = {}     # name -> name it shares storage with
    arrays = set()
    stmts = list(iter_stmts(fn.body))
    for i, st in enumerate(stmts):
        if isinstance(st, ast.Assign):
            pairs = []
            for t in st.targets:
                if isinstance(t, ast.Tuple) and isinstance(st.value, ast.Tuple) and len(t.elts) == len(st.value.elts):
                    pairs += list(zip(t.elts, st.value.elts))
                else:
                    pairs.append((t, st.value))
            for t, v in pairs:
                if isinstance(t, ast.Name):
                    a = _alias_of(v)
                    if a is not None and a != t.id:
                        alias[t.id] = alias.get(a, a)
                    else:
                        alias.pop(t.id, None)
                    if _arraylike(v, arrays):
                        arrays.add(t.id)
                    else:
                        arrays.discard(t.id)
                elif isinstance(t, ast.Tuple):
                    for el in t.elts:
                        if isinstance(el, ast.Name):
                            alias.pop(el.id, None)
                            if _arraylike(v, arrays):
                                arrays.add(el.id)
        tgt = None
        if isinstance(st, ast.AugAssign):
            tgt = st.target
        elif isinstance(st, ast.Assign) and isinstance(st.targets[0], ast.Subscript):
            tgt = st.targets[0]
        if tgt is not None:
            b = tgt
            while isinstance(b, ast.Subscript):
                b = b.value
            if isinstance(b, ast.Name) and b.id in alias and alias[b.id] in arrays:
                orig = alias[b.id]
                later = [s2 for s2 in stmts[i + 1:] if any(isinstance(n, ast.Name) and n.id == orig and isinstance(n.ctx, ast.Load) for n in ast.walk(s2))]
                # a re-binding of the original before any read ends its life
                if later:
                    out.append((st, b.id, orig, later[0]))
    return out


_CLASS_VIEWS = ('np.ndarray', 'ndarray', 'np.recarray', 'recarray', 'np.ma.MaskedArray', 'MaskedArray', 'np.matrix')


def reinterpret_input(fn, input_params):
    """`.view(<dtype>)` applied to data that still has the dtype of the caller's input (no astype / arithmetic on the way): the bytes are
    reinterpreted, not converted, so the result depends on the input's dtype.  -> [(call, receiver text)]"""
    raw = set(input_params)
    out = []

    def is_raw(e):
        if isinstance(e, ast.Name):
            return e.id in raw
        if isinstance(e, ast.Subscript):
            return is_raw(e.value)
        if isinstance(e, ast.Attribute):
            return e.attr in ('variables', 'T') and is_raw(e.value)
        if isinstance(e, ast.Call) and isinstance(e.func, ast.Attribute) and e.func.attr in _ALIAS_METHODS + ('copy', 'filled', 'values', 'items'):
            return is_raw(e.func.value)
        return False
    for _pass in range(3):
        for st in iter_stmts(fn.body):
            if isinstance(st, ast.Assign):
                for t in st.targets:
                    if isinstance(t, ast.Name):
                        (raw.add if is_raw(st.value) else (lambda x: None))(t.id)
                    elif isinstance(t, ast.Tuple) and is_raw(st.value):
                        raw.update(el.id for el in t.elts if isinstance(el, ast.Name))
            if isinstance(st, ast.For) and is_raw(st.iter):
                for n in ast.walk(st.target):
                    if isinstance(n, ast.Name):
                        raw.add(n.id)
            if isinstance(st, ast.For) and isinstance(st.iter, ast.Call) and dotted(st.iter.func) in ('zip', 'enumerate') and isinstance(st.target, ast.Tuple):
                args = st.iter.args if dotted(st.iter.func) == 'zip' else [None] + list(st.iter.args[:1])
                for tg, a in zip(st.target.elts, args):
                    if a is not None and is_raw(a):
                        raw.update(n.id for n in ast.walk(tg) if isinstance(n, ast.Name))
    # a name is raw only if *every* binding of it is raw (a re-binding through astype ends it) - except the self re-binding under test
    for st in iter_stmts(fn.body):
        if isinstance(st, ast.Assign) and len(st.targets) == 1 and isinstance(st.targets[0], ast.Name) and st.targets[0].id in raw and not is_raw(st.value):
            is_view = isinstance(st.value, ast.Call) and isinstance(st.value.func, ast.Attribute) and st.value.func.attr in ('view', 'astype')
            if not is_view and st.targets[0].id not in input_params:
                raw.discard(st.targets[0].id)
    for n in ast.walk(fn):
        # astype to a dtype derived from the input's own dtype keeps its item size: not a conversion to the record's 4-byte type
        if isinstance(n, ast.Call) and isinstance(n.func, ast.Attribute) and n.func.attr == 'astype' and n.args and is_raw(n.func.value):
            a0 = n.args[0]
            if any(isinstance(x, ast.Attribute) and x.attr in ('dtype', 'newbyteorder') for x in ast.walk(a0)):
                out.append((n, norm(n.func.value)))
        if isinstance(n, ast.Call) and isinstance(n.func, ast.Attribute) and n.func.attr == 'view' and (n.args or n.keywords):
            a = n.args[0] if n.args else None
            if a is None or dotted(a) in _CLASS_VIEWS or any(k.arg == 'type' for k in n.keywords):
                continue
            if is_raw(n.func.value):
                out.append((n, norm(n.func.value)))
    return out


def collapsed_elementwise_choice(fn):
    """`if (X <cmp> c).any()/.all(): X += a  else: X += b` - a per-element decision (which constant applies to which element) taken once
    for the whole array.  -> [(if stmt, array name, reduction)]"""
    out = []
    for st in iter_stmts(fn.body):
        if not isinstance(st, ast.If) or not st.orelse:
            continue
        t = st.test
        if isinstance(t, ast.UnaryOp) and isinstance(t.op, ast.Not):
            t = t.operand
        red = None
        if isinstance(t, ast.Call) and isinstance(t.func, ast.Attribute) and t.func.attr in ('any', 'all') and isinstance(t.func.value, ast.Compare):
            red, cmp_ = t.func.attr, t.func.value
        elif isinstance(t, ast.Call) and dotted(t.func) in ('np.any', 'np.all', 'any', 'all') and t.args and isinstance(t.args[0], ast.Compare):
            red, cmp_ = dotted(t.func).split('.')[-1], t.args[0]
        if red is None or not isinstance(cmp_.left, ast.Name):
            continue
        x = cmp_.left.id

        def updates(block):
            return [s2 for s2 in block if (isinstance(s2, ast.AugAssign) and isinstance(s2.target, ast.Name) and s2.target.id == x) or
                    (isinstance(s2, ast.Assign) and len(s2.targets) == 1 and isinstance(s2.targets[0], ast.Name) and s2.targets[0].id == x
                     and any(isinstance(n, ast.Name) and n.id == x for n in ast.walk(s2.value)))]
        if updates(st.body) and updates(st.orelse) and norm(updates(st.body)[0]) != norm(updates(st.orelse)[0]):
            out.append((st, x, red))
    return out


_DT64_RANK = {'as': 0, 'fs': 1, 'ps': 2, 'ns': 3, 'us': 4, 'ms': 5, 's': 6, 'm': 7, 'h': 8, 'D': 9, 'W': 10, 'M': 11, 'Y': 12}
_RES_NEED = {'microsecond': 'us', 'second': 's', 'minute': 'm', 'hour': 'h', 'day': 'D', 'month': 'D', 'year': 'D'}


def resolution_table(fn, resname='minres', unitname='tu'):
    """if-chain translating the finest non-zero datetime field into a numpy datetime64 unit: the unit may not be coarser than the field.
    -> ('ok', n) | ('wrong', stmt, field, unit, needed) | ('unknown', why)"""
    from . import consteval
    chain = None
    for st in iter_stmts(fn.body):
        if isinstance(st, ast.If) and isinstance(st.test, ast.Compare) and norm(st.test.left) == resname \
                and not (isinstance(getattr(st, '_parent', None), ast.If) and st in getattr(st, '_parent').orelse):
            chain = st
            break
    if chain is None:
        return ('unknown', 'no if-chain on %s' % resname)
    n = 0
    for field, need in _RES_NEED.items():
        env = consteval.run_block([chain], {resname: field}, want_env=True)
        if env is consteval.UNK or env.get(unitname, consteval.UNK) is consteval.UNK:
            return ('unknown', 'chain outside the evaluated fragment for %s' % field)
        m = re.match(r"^datetime64\[(\w+)\]$", str(env[unitname]))
        if not m or m.group(1) not in _DT64_RANK:
            return ('unknown', 'unit %r not understood' % (env[unitname],))
        n += 1
        if _DT64_RANK[m.group(1)] > _DT64_RANK[need]:
            # the statement that assigns this unit
            return ('wrong', chain, field, m.group(1), need)
    return ('ok', n)


def mutated_mutable_defaults(fn):
    """parameters whose default is a mutable literal ({} / [] / set() / dict() / list()) and that are mutated in the body
    (method call that changes the container, subscript store, augmented assignment): state leaks from call to call.
    -> [(param name, default node, mutating stmt)]"""
    out = []
    args = fn.args
    pos = args.posonlyargs + args.args
    pairs = list(zip(pos[len(pos) - len(args.defaults):], args.defaults)) + [(a, d) for a, d in zip(args.kwonlyargs, args.kw_defaults) if d is not None]
    for a, d in pairs:
        mutable = isinstance(d, (ast.Dict, ast.List, ast.Set)) or (isinstance(d, ast.Call) and dotted(d.func) in ('dict', 'list', 'set', 'OrderedDict') and not d.args and not d.keywords)
        if not mutable:
            continue
        rebound = False
        for st in iter_stmts(fn.body):
            if isinstance(st, ast.Assign) and any(isinstance(t, ast.Name) and t.id == a.arg for t in st.targets):
                rebound = True       # a re-binding before the mutation (x = dict(x)) protects the default
            if rebound:
                continue
            hit = None
            if isinstance(st, ast.Expr) and isinstance(st.value, ast.Call) and isinstance(st.value.func, ast.Attribute) and isinstance(st.value.func.value, ast.Name) \
                    and st.value.func.value.id == a.arg and st.value.func.attr in ('update', 'append', 'extend', 'insert', 'setdefault', 'pop', 'clear', 'add', 'remove', 'popitem'):
                hit = st
            if isinstance(st, (ast.Assign, ast.AugAssign)):
                for t in (st.targets if isinstance(st, ast.Assign) else [st.target]):
                    if isinstance(t, ast.Subscript) and isinstance(t.value, ast.Name) and t.value.id == a.arg:
                        hit = st
                    if isinstance(st, ast.AugAssign) and isinstance(t, ast.Name) and t.id == a.arg:
                        hit = st
            if hit is not None:
                # the leak is observable only if the function also *reads* the container (its behaviour then depends on what an earlier call left
                # there); a container that is only (re)filled key by key and returned behaves the same on every call
                reads = False
                for n in ast.walk(fn):
                    if isinstance(n, ast.Name) and n.id == a.arg and isinstance(n.ctx, ast.Load):
                        par = getattr(n, '_parent', None)
                        if isinstance(par, ast.Subscript) and isinstance(par.ctx, (ast.Store, ast.Del)):
                            continue
                        if isinstance(par, ast.Return):
                            continue
                        if isinstance(par, ast.Attribute) and isinstance(getattr(par, '_parent', None), ast.Call) and par.attr in ('update', 'append', 'extend', 'insert', 'setdefault', 'add'):
                            if par.attr in ('append', 'extend', 'insert', 'add'):
                                reads = True      # accumulates: the returned/used container grows from call to call
                            continue
                        reads = True
                if reads:
                    out.append((a.arg, d, hit))
                break
    return out


def unflushed_return(fn, handle=None):
    """a writer that returns its still-open file object must flush it after the last write (the caller may read the file while holding
    the handle).  -> None if fine / not applicable, else the return statement"""
    rets = [st for st in fn.body if isinstance(st, ast.Return) and isinstance(st.value, ast.Name)]
    if not rets:
        return None
    h = handle or rets[-1].value.id
    # is h a file opened by this function?
    opened = [st for st in iter_stmts(fn.body) if isinstance(st, ast.Assign) and norm(st.targets[0]) == h and isinstance(st.value, ast.Call) and dotted(st.value.func) in ('open', 'io.open')]
    if not opened:
        return None
    ridx = fn.body.index(rets[-1])

    def writes(st):
        for c in ast.walk(st):
            if isinstance(c, ast.Call):
                d = dotted(c.func) or ''
                if d == h + '.write' or d == h + '.writelines':
                    return True
                if isinstance(c.func, ast.Attribute) and c.func.attr == 'tofile' and c.args and norm(c.args[0]) == h:
                    return True
                if d == 'print' and kw(c, 'file') is not None and norm(kw(c, 'file')) == h:
                    return True
        return False
    last_w = max([i for i, st in enumerate(fn.body[:ridx]) if writes(st)] or [-1])
    if last_w < 0:
        return None
    for st in fn.body[last_w + 1:ridx]:
        if isinstance(st, ast.Expr) and isinstance(st.value, ast.Call) and dotted(st.value.func) in (h + '.flush', h + '.close'):
            return None
    # flush inside the last writing statement (e.g. at the end of the loop body) does not cover a zero-iteration loop, but covers the data written
    lw = fn.body[last_w]
    if isinstance(lw, (ast.For, ast.While)) and lw.body and isinstance(lw.body[-1], ast.Expr) and isinstance(lw.body[-1].value, ast.Call) and dotted(lw.body[-1].value.func) == h + '.flush':
        return None
    return rets[-1]


def converter_pass_through(ctx, rule, users):
    """R-PASSMASK: the string-form operations copy the variables they do not touch with Pseudo2NetCDF.addVariable; its data step
    (addVariableData) must not fill the masked cells of the source when the target is an in-memory masked variable - there the fill
    values stay as ordinary data and the mask is gone (on disk the fill value is what the reader turns back into a mask).
    Path-wise: on every path taken for a masked source, a store of `<source>.filled(..)` into the target is preceded by a decision
    that the target is not a masked array.  `users`: [(relpath, function)] whose pass-through goes this way (counted)."""
    from . import paths as _paths
    from .engine import norm, dotted, iter_stmts
    from .report import Finding
    import ast as _ast
    src = ctx.src
    m = src.mod('pncgen.py')
    fn = m.func('Pseudo2NetCDF.addVariableData')
    where = 'src/PseudoNetCDF/pncgen.py Pseudo2NetCDF.addVariableData'
    nsites = 0
    for rp, q in users:
        f = src.mod(rp).func(q)
        nsites += sum(1 for c in _ast.walk(f) if isinstance(c, _ast.Call) and isinstance(c.func, _ast.Attribute) and c.func.attr == 'addVariable')
    ctx.count('%s: pass-through copies that go through Pseudo2NetCDF.addVariable' % rule, nsites)
    nmasked, bad = 0, None
    for pth in _paths.function_paths(fn):
        if pth.exit[0] == 'raise':
            continue
        res = _paths.expand(pth, keep=('nvar', 'pvar'))
        if not res.feasible:
            continue
        ismasked = [p_ for e_, x, p_ in res.conds if isinstance(x, _ast.Call) and dotted(x.func) == 'isinstance' and 'MaskedArray' in norm(x) and 'pvar' in norm(x.args[0])]
        if not ismasked or ismasked[-1] is not True:
            continue
        for k_, (st, new) in enumerate(res.stmts):
            if not (isinstance(new, _ast.Assign) and isinstance(new.targets[0], _ast.Subscript) and norm(new.targets[0].value) == 'nvar'):
                continue
            nmasked += 1
            fills = [c for c in _ast.walk(new.value) if isinstance(c, _ast.Call) and ((isinstance(c.func, _ast.Attribute) and c.func.attr == 'filled') or dotted(c.func) in ('np.ma.filled', 'filled'))]
            if not fills:
                continue
            before = res.conds[:res.ncond_at[k_]]
            target_not_masked = any(p_ is False and isinstance(x, _ast.Call) and dotted(x.func) == 'isinstance' and norm(x.args[0]) == 'nvar' and 'MaskedArray' in norm(x) for e_, x, p_ in before) or \
                any(p_ is True and isinstance(x, _ast.Call) and dotted(x.func) == 'isinstance' and norm(x.args[0]) in ('nvar', 'nfile') and 'NetCDF' in norm(x) and 'Pseudo' not in norm(x) for e_, x, p_ in before)
            if not target_not_masked:
                bad = bad or st
    if nmasked == 0:
        ctx.undec(rule, 'pass-through copy', where, 'no store into the target on a path taken for a masked source')
    elif bad is None:
        ctx.ok(rule, 'pass-through copy', where, 'masked source: filled() only after the target was found not to be a masked array (%d call sites rely on it)' % nsites)
    else:
        ctx.violation(Finding(rule, 'pncgen.py', 'Pseudo2NetCDF.addVariableData', bad, 'a masked source is written as `.filled(..)` whatever the target is: when the target is an in-memory masked variable (the '
                              'string-form operations copy every variable they do not touch this way) the fill values become ordinary data and the mask is lost - a variable that '
                              'lacks the dimension does not come back unchanged'))
    return nsites


FUZZY_KEYS = ('lay', 'lay47', 'lay1', 'layer', 'lay_stag', 'lay1b', 'xlay', 'la', 'LAY47', 'lay 2')
FUZZY_WANT = ['lay47', 'lay1']


def fuzzy_companions(ctx, rule, relpath, qual):
    """R-FUZZYDIM.  The string forms of slice/reduce extend the request for dimension D to the companion dimensions 'D<digits>'
    (layer -> layer47).  Every other dimension - in particular one whose name merely starts with D (bottom_top_stag, latitude) - is
    not selected, so the variables on it must come back unchanged.  The comprehension that collects the companions is evaluated by
    the checker's own evaluator on sample names; nothing of the repository runs."""
    from . import consteval
    from .report import Finding
    m = ctx.src.mod(relpath)
    fn = m.func(qual)
    where = 'src/PseudoNetCDF/%s %s' % (relpath, qual)
    comps = [c for c in walk_expr(fn) if isinstance(c, (ast.ListComp, ast.GeneratorExp)) and len(c.generators) == 1
             and norm(c.generators[0].iter).endswith('.dimensions') and c.generators[0].ifs and isinstance(c.generators[0].target, ast.Name)
             and isinstance(c.elt, ast.Name) and c.elt.id == c.generators[0].target.id]
    if not comps:
        ctx.undec(rule, qual, where, 'no comprehension over the dimensions collects the companion dimensions')
        return 0
    n = 0
    for c in comps:
        g = c.generators[0]
        free = set(x.id for i in g.ifs for x in ast.walk(i) if isinstance(x, ast.Name)) - set([g.target.id, 'len', 'str'])
        if len(free) != 1:
            ctx.undec(rule, qual, where, 'companion condition depends on %s' % sorted(free))
            continue
        dk = list(free)[0]
        n += 1

        def hook(e, _it=g.iter):
            if e is _it:
                return tuple(FUZZY_KEYS)
            return None
        got = consteval.ev(c, {dk: 'lay'}, hook)
        if got is consteval.UNK:
            ctx.undec(rule, qual, where, 'companion condition outside the evaluated fragment: %s' % norm(g.ifs[0])[:80])
        elif list(got) == FUZZY_WANT:
            ctx.ok(rule, qual, where, "for 'lay' the companions among %d sample names are exactly %s" % (len(FUZZY_KEYS), FUZZY_WANT))
        else:
            extra = [k for k in got if k not in FUZZY_WANT]
            miss = [k for k in FUZZY_WANT if k not in got]
            from . import api as _api
            ctx.violation(Finding(rule, relpath, qual, _api.stmt_of(c),
                                  "a request for dimension 'lay' is extended to %s%s: only the dimensions named 'lay<digits>' are companions; the "
                                  "variables on any other dimension were not selected and must come back unchanged"
                                  % (extra or 'no other dimension', (' and not to %s' % miss) if miss else '')), oid=qual)
    return n


def stale_loop_variables(fn):
    """a name that is only ever bound as the target of one for loop, and is read inside the body of a *later* sibling loop (after the
    first loop has finished): there it holds the last value of the finished loop for every iteration - the classic slip of reusing the
    wrong index.  Reads after the loop outside any loop (use of the last value) are not reported.  -> [(name, defining loop, read node)]"""
    out = []
    binds = {}
    for n in ast.walk(fn):
        if isinstance(n, ast.Name) and isinstance(n.ctx, (ast.Store, ast.Del)):
            binds.setdefault(n.id, []).append(n)
        elif isinstance(n, ast.arg):
            binds.setdefault(n.arg, []).append(n)

    def targets(lp):
        return set(x.id for x in ast.walk(lp.target) if isinstance(x, ast.Name))
    for blk_owner in ast.walk(fn):
        for fld in ('body', 'orelse', 'finalbody'):
            blk = getattr(blk_owner, fld, None)
            if not (isinstance(blk, list) and blk and isinstance(blk[0], ast.stmt)):
                continue
            for i, lp in enumerate(blk):
                if not isinstance(lp, ast.For):
                    continue
                inside = set(id(x) for x in ast.walk(lp))
                for nm in targets(lp):
                    for j, later in enumerate(blk[i + 1:], start=i + 1):
                        if not isinstance(later, (ast.For, ast.While)):
                            continue
                        # bound nowhere but in the defining loop and in statements that come after the reading loop
                        after_ids = set(id(x) for s3 in blk[j + 1:] for x in ast.walk(s3))
                        if any(id(b) not in inside and id(b) not in after_ids for b in binds.get(nm, [])):
                            break
                        bodynodes = [x for s2 in later.body for x in ast.walk(s2)]
                        reads = [x for x in bodynodes if isinstance(x, ast.Name) and x.id == nm and isinstance(x.ctx, ast.Load)]
                        if reads:
                            out.append((nm, lp, reads[0]))
                            break
    return out


def guard_object_mismatch(fn):
    """`if K not in A.dimensions: B.createDimension(K ..) / B.copyDimension(..key=K)` (same for variables) with A and B different
    objects: the guard asks one file whether the name is missing and adds it to another.  -> [(if stmt, guard object, populated object)]"""
    out = []
    for st in ast.walk(fn):
        if not isinstance(st, ast.If):
            continue
        t = st.test
        if not (isinstance(t, ast.Compare) and len(t.ops) == 1 and isinstance(t.ops[0], ast.NotIn) and isinstance(t.comparators[0], ast.Attribute)
                and t.comparators[0].attr in ('dimensions', 'variables') and isinstance(t.comparators[0].value, ast.Name) and isinstance(t.left, ast.Name)):
            continue
        kind, gobj, key = t.comparators[0].attr, t.comparators[0].value.id, t.left.id
        # a presence test that protects a *read* of A.<kind>[K] on the other branch (or in the statements that follow when the body
        # leaves) is not a "create it if it is missing" guard: what the body adds elsewhere is the fallback for the missing operand
        wanted = '%s.%s[%s]' % (gobj, kind, key)
        rest = list(st.orelse)
        par = getattr(st, '_parent', None)
        for blk in ('body', 'orelse', 'finalbody'):
            lst = getattr(par, blk, None)
            if isinstance(lst, list) and st in lst:
                rest += lst[lst.index(st) + 1:]
        if any(isinstance(n, ast.Subscript) and norm(n) == wanted for s2 in rest for n in ast.walk(s2)):
            continue
        for s2 in st.body:
            for c in ast.walk(s2):
                if isinstance(c, ast.Call) and isinstance(c.func, ast.Attribute) and isinstance(c.func.value, ast.Name):
                    meth = c.func.attr
                    if kind == 'dimensions' and meth in ('createDimension', 'copyDimension') or kind == 'variables' and meth in ('createVariable', 'copyVariable'):
                        names = [norm(a) for a in c.args] + [norm(k.value) for k in c.keywords]
                        if key in names and c.func.value.id != gobj:
                            out.append((st, gobj, c.func.value.id))
    return out


def attr_alias_inplace(fn):
    """`x = self.ATTR` (the attribute object itself, no copy) followed by `x <op>= ...` where x is used as an array (subscripted, or
    asked for .size / .shape / .astype): the in-place operator changes the array the receiver's attribute refers to - the receiver
    is modified by what looks like a computation on a local.  -> [(aug stmt, local, attribute text)]"""
    out = []
    params = [a.arg for a in fn.args.args]
    recv = params[0] if params else None
    if recv not in ('self',):
        return out
    src = {}
    stmts = list(iter_stmts(fn.body))
    for i, st in enumerate(stmts):
        if isinstance(st, ast.Assign) and len(st.targets) == 1 and isinstance(st.targets[0], ast.Name):
            v = st.value
            if isinstance(v, ast.Attribute) and isinstance(v.value, ast.Name) and v.value.id == recv and not v.attr.startswith('_'):
                src[st.targets[0].id] = norm(v)
            else:
                src.pop(st.targets[0].id, None)
        if isinstance(st, ast.AugAssign) and isinstance(st.target, ast.Name) and st.target.id in src:
            nm = st.target.id
            arrayish = any((isinstance(n, ast.Subscript) and isinstance(n.value, ast.Name) and n.value.id == nm) or
                           (isinstance(n, ast.Attribute) and isinstance(n.value, ast.Name) and n.value.id == nm and n.attr in ('size', 'shape', 'astype', 'ndim', 'T'))
                           for n in ast.walk(fn))
            if arrayish:
                out.append((st, nm, src[nm]))
    return out
