"""Trusted-base calibration (thorough tier): the frozen numpy fact tables are evaluated on constants with the
installed numpy; dtype spellings found in the repository are compared with numpy's own item sizes.
Only numpy is executed, never repository code.  A mismatch is an ANALYSIS-ERROR (exit 2)."""
import ast
import re

from . import engine, prov, dtypes as DT


def run(ctx):
    import numpy as np
    bad = []
    n = 0
    a = np.arange(24.).reshape(2, 3, 4)
    m = np.ma.masked_greater(a, 20)
    # views
    facts_view = {
        'basic slice': a[:, 1:], 'ellipsis': a[...], 'int+slice': a[0, :], 'T': a.T, 'swapaxes': a.swapaxes(0, 1), 'view': a.view(),
        'squeeze': a[:1].squeeze(), 'asarray': np.asarray(a), 'atleast_1d': np.atleast_1d(a), 'rollaxis': np.rollaxis(a, 2), 'moveaxis': np.moveaxis(a, 2, 0),
        'expand_dims': np.expand_dims(a, 0), 'ma.array': np.ma.array(a), 'ma.data': m.data, 'transpose': np.transpose(a),
    }
    for k, v in facts_view.items():
        n += 1
        if not np.shares_memory(a if k != 'ma.data' else m, v):
            bad.append('view fact %s does not hold' % k)
    facts_fresh = {
        'copy': a.copy(), 'astype': a.astype('f'), 'arith': a + 0, 'list index': a[[0, 1]], 'bool mask': a[a > 3], 'concatenate': np.concatenate([a, a]),
        'np.array': np.array(a), 'append': np.append(a, a), 'diff': np.diff(a), 'where': np.where(a > 1, a, 0), 'masked_where': np.ma.masked_where(a > 3, a),
        'masked_invalid': np.ma.masked_invalid(a), 'take': a.take(0, axis=1), 'repeat': a.repeat(2, 0), 'filled(masked)': m.filled(0),
    }
    for k, v in facts_fresh.items():
        n += 1
        if np.shares_memory(a, v) or np.shares_memory(m, v):
            bad.append('fresh fact %s does not hold' % k)
    # np.ma.masked_*(copy=False) on an already masked array: a view whose new condition is written into the shared mask
    for k, fn_ in {'masked_where': lambda x: np.ma.masked_where(x.data < 2, x, copy=False), 'masked_less': lambda x: np.ma.masked_less(x, 2, copy=False),
                   'masked_invalid': lambda x: np.ma.masked_invalid(x, copy=False)}.items():
        n += 1
        m2 = np.ma.masked_greater(np.arange(24.).reshape(2, 3, 4), 20)
        before = int(m2.mask.sum())
        r2 = fn_(m2)
        if not np.shares_memory(m2, r2):
            bad.append('masked ctor copy=False view fact %s does not hold' % k)
        if k != 'masked_invalid' and int(m2.mask.sum()) == before:
            bad.append('masked ctor copy=False in-place mask fact %s does not hold' % k)
    # mask droppers
    for k, v in {'asarray': np.asarray(m), 'view(ndarray)': m.view(np.ndarray), 'filled': m.filled(), 'data': m.data}.items():
        n += 1
        if isinstance(v, np.ma.MaskedArray):
            bad.append('mask-dropper fact %s does not hold' % k)
    # further numpy functions that return their masked argument without its mask
    for k, v in {'resize': np.resize(m, (4, 3, 2)), 'append': np.append(m, m), 'insert': np.insert(m.ravel(), 0, 1.), 'delete': np.delete(m.ravel(), 0),
                 'pad': np.pad(m.ravel(), 1), 'broadcast_to': np.broadcast_to(m, (2,) + m.shape)}.items():
        n += 1
        if np.ma.getmaskarray(v).any():
            bad.append('mask-dropper fact %s does not hold' % k)
    # scalar extraction from a masked 0-d array returns the hidden data value
    n += 1
    if np.ma.masked_array(5., mask=True).item() != 5.0:
        bad.append('masked 0-d .item() fact does not hold')
    # uint8 array minus a Python integer stays uint8 (values below the offset wrap around); minus a float32 scalar it becomes float
    n += 2
    if (np.array([5, 200], dtype='uint8') - 127).dtype != np.dtype('uint8'):
        bad.append('uint8 - int stays uint8 fact does not hold')
    if (np.array([5, 200], dtype='uint8') - np.float32(127.)).dtype.kind != 'f':
        bad.append('uint8 - float32 becomes float fact does not hold')
    # np.isscalar classification used by C02
    n += 3
    if not (np.isscalar(3) and np.isscalar(np.int64(3)) and not np.isscalar(slice(1, 2)) and not np.isscalar([1, 2]) and not np.isscalar(np.array([1]))):
        bad.append('np.isscalar classification fact does not hold')
    # interp needs increasing xp (C16): document only
    # dtype spellings in the repository
    src = ctx.src
    seen = set()
    for mod in src.all_modules():
        for node in ast.walk(mod.tree):
            if isinstance(node, ast.Constant) and isinstance(node.value, str):
                s = node.value
                if re.match(r'^\s*(\(\s*\d+(\s*,\s*\d+)*\s*,?\s*\)|\d+)?\s*[<>=|]?\s*\d*\s*[ifdSbc]\s*\d*\s*$', s) and s.strip() and len(s) < 16 \
                        and re.search(r'[<>]|\(|\d', s):
                    seen.add(s)
    for s in sorted(seen):
        try:
            want = np.dtype(s).itemsize
        except Exception:
            continue
        try:
            got = DT.parse_scalar_spec(s).nbytes().constval()
        except Exception as e:
            continue
        n += 1
        if got != want:
            bad.append('dtype %r: evaluator says %s bytes, numpy says %d' % (s, got, want))
    ctx.analysed['trusted-base facts calibrated against the installed numpy'] = n
    ctx.notes.append('calibration: %d numpy facts / dtype spellings evaluated on constants, %d mismatches' % (n, len(bad)))
    if bad:
        raise engine.AnalysisError('trusted-base calibration failed: ' + '; '.join(bad[:5]))
