"""E8: obligations, findings, known-findings matching, evidence, exit codes."""
import json
import os
import sys
import time

from .engine import norm

VERIF = os.path.dirname(os.path.dirname(os.path.abspath(__file__)))
KNOWN = os.path.join(VERIF, 'known_findings.json')


class Finding(object):
    def __init__(self, rule, relpath, func, stmt, message, lineno=None, path=None):
        self.rule = rule
        self.relpath = relpath
        self.func = func
        self.stmt = norm(stmt) if not isinstance(stmt, str) else ' '.join(stmt.split())
        self.message = message
        self.lineno = lineno if lineno is not None else getattr(stmt, '_src_lineno', getattr(stmt, 'lineno', None))     # the line the statement was written on (an inlined statement sits at its call site in the analysed view)
        self.path = path

    def key(self, prop):
        return (prop, self.rule, self.relpath, self.func, self.stmt)

    def as_dict(self, prop):
        return dict(property=prop, rule=self.rule, file=self.relpath, function=self.func,
                    statement=self.stmt, line=self.lineno, message=self.message,
                    path=self.path)

    def where(self):
        return 'src/PseudoNetCDF/%s:%s %s' % (self.relpath, self.lineno, self.func)


class Ctx(object):
    """Collects what one property check analysed and decided."""

    def __init__(self, prop, tier='quick', src=None, quiet=False):
        self.prop = prop
        self.tier = tier
        self.src = src
        self.quiet = quiet
        self.obligations = []   # dict(rule, id, where, status, detail)
        self.findings = []
        self.undecided = []
        self.analysed = {}      # counter name -> int or list
        self.floors = {}        # name -> (found, floor)
        self.rules = {}         # rule -> description
        self.assumptions = []
        self.notes = []
        self.t0 = time.time()

    # -- bookkeeping ---------------------------------------------------------
    def rule(self, name, desc):
        self.rules[name] = desc

    def count(self, name, n=1):
        self.analysed[name] = self.analysed.get(name, 0) + n

    def ok(self, rule, oid, where, detail=''):
        self.obligations.append(dict(rule=rule, id=oid, where=where, status='discharged', detail=detail))

    def undec(self, rule, oid, where, detail=''):
        self.obligations.append(dict(rule=rule, id=oid, where=where, status='undecided', detail=detail))
        self.undecided.append(dict(rule=rule, id=oid, where=where, detail=detail))

    def violation(self, finding, oid=None):
        self.findings.append(finding)
        self.obligations.append(dict(rule=finding.rule, id=oid or finding.stmt[:80],
                                     where=finding.where(), status='violated',
                                     detail=finding.message))

    def floor(self, name, found, floor):
        """fail closed: a rule that matches fewer instances than confirmed by
        hand would pass vacuously."""
        self.floors[name] = (found, floor)
        if found < floor:
            from .engine import AnalysisError
            raise AnalysisError('instance count below floor for %s: found %d < %d'
                                % (name, found, floor))

    def say(self, *a):
        if not self.quiet:
            print(*a)

    # -- finish --------------------------------------------------------------
    def finish(self, level_text, seed=0):
        known = load_known()
        kmap = {}
        for e in known.get('findings', []):
            kmap[(e['property'], e['rule'], e['file'], e['function'], ' '.join(e['statement'].split()))] = e
        new, listed = [], []
        for f in self.findings:
            k = f.key(self.prop)
            if k in kmap:
                listed.append((f, kmap[k]))
            else:
                new.append(f)
        nobl = len(self.obligations)
        ndis = sum(1 for o in self.obligations if o['status'] == 'discharged')
        nund = sum(1 for o in self.obligations if o['status'] == 'undecided')
        distinct = len(set((o['rule'], o['id'], o['where']) for o in self.obligations))
        samples = []
        byrule = {}
        for o in self.obligations:
            byrule.setdefault(o['rule'], []).append(o)
        for r, lst in sorted(byrule.items()):
            for o in lst[:4]:
                samples.append(o)
        cov = dict(
            explanation=level_text,
            rules=self.rules,
            obligations=nobl, discharged=ndis, undecided_count=nund,
            violated=len(self.findings),
            evaluations=max(nobl, 1), distinct_nontrivial=distinct,
            rule='one obligation per (rule, construct) instance enumerated from the '
                 'current source tree; distinct = distinct (rule, id, site) triples',
            samples=samples, analysed=self.analysed,
            floors=dict((k, dict(found=v[0], floor=v[1])) for k, v in self.floors.items()),
            undecided=self.undecided[:50],
            obligations_by_rule=dict((r, len(l)) for r, l in byrule.items()),
            known_findings_present=[f.as_dict(self.prop) for f, _ in listed],
            violations_new=[f.as_dict(self.prop) for f in new],
            checker_cmd='/venv/bin/python /verif/check %s --tier %s' % (self.prop, self.tier),
            trusted_base=['CPython ast', 'frozen numpy/netCDF4 fact tables in pncstatic (DESIGN.md section 3)'],
            exhaustive=True, notes=self.notes,
        )
        ev = dict(property_id=self.prop, tier=self.tier, seed=int(seed), level='other',
                  coverage=cov, assumptions=self.assumptions,
                  wall_s=round(time.time() - self.t0, 3), violations=len(new))
        self.evidence = ev
        # print report
        self.say('== %s (%s tier): %d obligations, %d discharged, %d undecided, %d violated'
                 % (self.prop, self.tier, nobl, ndis, nund, len(self.findings)))
        for r, lst in sorted(byrule.items()):
            self.say('   rule %-14s %3d obligations  -- %s' % (r, len(lst), self.rules.get(r, '')))
        for k, v in sorted(self.analysed.items()):
            self.say('   analysed %s = %s' % (k, v))
        for u in self.undecided[:20]:
            self.say('   UNDECIDED %s %s @ %s: %s' % (u['rule'], u['id'], u['where'], u['detail']))
        for f, e in listed:
            print('KNOWN-FINDING: property=%s %s %s %s -- %s' % (
                self.prop, f.rule, f.where(), f.stmt[:100], e.get('what_fails', f.message)))
        rc = 0
        if new:
            rdir = os.path.join(VERIF, 'evidence', 'replay')
            os.makedirs(rdir, exist_ok=True)
            for i, f in enumerate(new):
                import hashlib
                h = hashlib.sha1(repr(f.key(self.prop)).encode()).hexdigest()[:10]
                rp = os.path.join(rdir, '%s-%s-%s.json' % (self.prop, f.rule, h))
                with open(rp, 'w') as fh:
                    json.dump(f.as_dict(self.prop), fh, indent=1)
                print('  %s: %s\n      at %s\n      stmt: %s' % (f.rule, f.message, f.where(), f.stmt[:160]))
                print('VIOLATION property=%s replay=%s' % (self.prop, rp))
            rc = 1
        return rc, ev


def load_known():
    if os.path.isfile(KNOWN):
        with open(KNOWN) as f:
            return json.load(f)
    return {'findings': [], 'fixed': []}


def write_evidence(prop, ev):
    d = os.path.join(VERIF, 'evidence')
    os.makedirs(d, exist_ok=True)
    p = os.path.join(d, '%s.json' % prop)
    tmp = p + '.tmp.%d' % os.getpid()
    with open(tmp, 'w') as f:
        json.dump(ev, f, indent=1, default=str)
    os.replace(tmp, p)
    return p
