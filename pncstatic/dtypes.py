"""E6: evaluator for the numpy dtype spellings that occur in the repository.

A layout is a list of Field(name, kind, itemsize, count(Poly), sub(list of Field) or None).
Byte order is ignored (every reader applies newbyteorder(ep) with ep='>' by default and the
writers spell '>' explicitly); only kinds, item sizes, counts and order are compared.
"""
import ast
import re

from .engine import norm, dotted, const_str, AnalysisError
from .sizealg import Poly, to_poly

DEFAULT_SIZE = {'i': 4, 'f': 4, 'd': 8, 'b': 1, 'c': 1, 'S': 1, 'l': 8, 'h': 2, 'u': 4, 'B': 1}


class Field(object):
    def __init__(self, name, kind, itemsize, count, sub=None, shape=None):
        self.name = name
        self.kind = kind
        self.itemsize = itemsize
        self.count = count if isinstance(count, Poly) else Poly.const(count)
        self.sub = sub
        self.shape = shape or ()

    def nbytes(self):
        if self.sub is not None:
            return self.count * sum((f.nbytes() for f in self.sub), Poly())
        return self.count * self.itemsize

    def __repr__(self):
        if self.sub is not None:
            return '%s:%s x [%s]' % (self.name, self.count, ', '.join(repr(f) for f in self.sub))
        return '%s:%s x %s%d' % (self.name, self.count, self.kind, self.itemsize)


def nbytes(fields):
    return sum((f.nbytes() for f in fields), Poly())


def flatten(fields, mult=None):
    """-> list of (kind, itemsize, count Poly) with adjacent equal (kind,itemsize) merged only when both counts constant"""
    out = []
    mult = mult if mult is not None else Poly.const(1)
    for f in fields:
        if f.sub is not None:
            inner = flatten(f.sub)
            c = (mult * f.count)
            cv = c.constval()
            if cv is not None and cv.denominator == 1 and cv <= 64:
                for _ in range(int(cv)):
                    out.extend(inner)
            else:
                out.append(('struct', tuple(inner), c))
        else:
            kind, size, cnt = f.kind, f.itemsize, mult * f.count
            if kind == 'S':
                # strings: compare as bytes
                cnt, size = cnt * size, 1
            out.append((kind, size, cnt))
    # merge adjacent
    merged = []
    for item in out:
        if merged and merged[-1][0] == item[0] and merged[-1][1] == item[1] and item[0] != 'struct':
            merged[-1] = (item[0], item[1], merged[-1][2] + item[2])
        else:
            merged.append(item)
    return merged


_spec = re.compile(r'^\s*(?:\(([^)]*)\)|(\d+))?\s*([<>=|])?\s*(\d+)?\s*([a-zA-Z])\s*(\d+)?\s*$')


def parse_scalar_spec(s, args=None, name=''):
    """one dtype string such as '(10,4)>S1', '8>S', '>f', "(%d,%d)f" with args (list of Poly)"""
    args = list(args or [])
    m = _spec.match(s.replace('%d', '@'))
    if '@' in s.replace('%d', '@'):
        # substitute %d placeholders inside the shape
        txt = s
        shape_m = re.match(r'^\s*\(([^)]*)\)(.*)$', txt)
        if not shape_m:
            raise AnalysisError('dtype format with %%d outside a shape: %r' % s)
        dims = []
        for piece in shape_m.group(1).split(','):
            piece = piece.strip()
            if piece == '':
                continue
            if piece == '%d':
                if not args:
                    raise AnalysisError('too few arguments for dtype format %r' % s)
                dims.append(args.pop(0))
            else:
                dims.append(Poly.const(int(piece)))
        rest = shape_m.group(2)
        m2 = _spec.match(rest)
        if not m2:
            raise AnalysisError('dtype spelling not understood: %r' % s)
        _, pre, _e, mid, kind, suf = m2.groups()
        count = Poly.const(1)
        for d in dims:
            count = count * d
        return _mk(name, kind, pre, mid, suf, count, tuple(dims))
    if not m:
        raise AnalysisError('dtype spelling not understood: %r' % s)
    shape, pre, _e, mid, kind, suf = m.groups()
    count = Poly.const(1)
    dims = ()
    if shape is not None:
        dims = tuple(Poly.const(int(x)) for x in shape.split(',') if x.strip())
        for d in dims:
            count = count * d
    return _mk(name, kind, pre, mid, suf, count, dims)


def _mk(name, kind, pre, mid, suf, count, dims):
    if kind == 'S' or kind == 'c' or kind == 'a':
        size = 1
        for x in (pre, mid, suf):
            if x:
                size *= int(x)
        return Field(name, 'S', size, count, shape=dims)
    size = int(suf) if suf else DEFAULT_SIZE.get(kind)
    if size is None:
        raise AnalysisError('unknown dtype kind %r' % kind)
    if kind == 'f' and size == 8:
        kind = 'd'
    if pre:
        count = count * int(pre)
    if mid:
        count = count * int(mid)
    return Field(name, kind, size, count, shape=dims)


class DtypeEnv(object):
    """resolves names to dtype-valued expressions (module constants, class attributes, locals)"""

    def __init__(self, bindings=None, polyenv=None, atomize=None):
        self.b = dict(bindings or {})     # name -> ast expr
        self.polyenv = polyenv or {}
        self.atomize = atomize

    def poly(self, e):
        return to_poly(e, self.polyenv, self.atomize)

    def eval(self, e, name=''):
        """-> list of Field"""
        if isinstance(e, ast.BinOp) and isinstance(e.op, ast.Add):
            l, r = _fold_str(e.left), _fold_str(e.right)
            if l is not None and r is not None:
                e = ast.Constant(value=l + r)
        if isinstance(e, ast.Call):
            d = dotted(e.func) or ''
            if isinstance(e.func, ast.Attribute) and e.func.attr == 'newbyteorder':
                return self.eval(e.func.value, name)
            if d.split('.')[-1] == 'dtype' and e.args:
                return self.eval(e.args[0], name)
            if d == 'dict':
                names = fmts = None
                for k in e.keywords:
                    if k.arg == 'names':
                        names = k.value
                    if k.arg == 'formats':
                        fmts = k.value
                return self._names_formats(names, fmts)
        if isinstance(e, ast.Dict):
            names = fmts = None
            for k, v in zip(e.keys, e.values):
                if const_str(k) == 'names':
                    names = v
                if const_str(k) == 'formats':
                    fmts = v
            return self._names_formats(names, fmts)
        if isinstance(e, ast.Constant) and isinstance(e.value, str):
            s = e.value
            if ',' in re.sub(r'\([^)]*\)', '', s):
                parts = [p for p in re.split(r',(?![^(]*\))', s)]
                return [parse_scalar_spec(p, name='f%d' % i) for i, p in enumerate(parts)]
            return [parse_scalar_spec(s, name=name)]
        if isinstance(e, ast.BinOp) and isinstance(e.op, ast.Mod) and const_str(e.left) is not None:
            args = e.right.elts if isinstance(e.right, ast.Tuple) else [e.right]
            polys = [self.poly(a) for a in args]
            s = const_str(e.left)
            if '%s' in s:
                # '>i4, %s>f4, >i4' % str(tuple(dim)) : symbolic shape
                s2 = s.replace('%s', '(@shape)')
                parts = [p for p in re.split(r',(?![^(]*\))', s2)]
                out = []
                for i, p in enumerate(parts):
                    if '@shape' in p:
                        rest = p.replace('(@shape)', '').strip()
                        m2 = _spec.match(rest)
                        _, pre, _e2, mid, kind, suf = m2.groups()
                        out.append(_mk('f%d' % i, kind, pre, mid, suf, Poly.atom('prod(' + norm(args[0]) + ')'), ()))
                    else:
                        out.append(parse_scalar_spec(p, name='f%d' % i))
                return out if len(out) > 1 else [Field(name, out[0].kind, out[0].itemsize, out[0].count)]
            return [parse_scalar_spec(s, polys, name=name)]
        if isinstance(e, ast.Name):
            if e.id in self.b:
                return self.eval(self.b[e.id], name)
            raise AnalysisError('dtype name not resolved: %s' % e.id)
        if isinstance(e, ast.Attribute):
            key = norm(e)
            for k in (key, e.attr, e.attr.lstrip('_'), '_' + e.attr.lstrip('_')):
                if k in self.b and self.b[k] is not e:
                    self._depth = getattr(self, '_depth', 0) + 1
                    if self._depth > 40:
                        raise AnalysisError('dtype attribute resolution does not terminate: %s' % key)
                    try:
                        return self.eval(self.b[k], name)
                    finally:
                        self._depth -= 1
            raise AnalysisError('dtype attribute not resolved: %s' % key)
        if isinstance(e, ast.List):
            out = []
            for t in e.elts:
                if isinstance(t, ast.Tuple) and len(t.elts) >= 2:
                    fname = const_str(t.elts[0]) or norm(t.elts[0])
                    sub = self.eval(t.elts[1], fname)
                    if len(t.elts) == 3:
                        cnt = Poly.const(1)
                        for x in (t.elts[2].elts if isinstance(t.elts[2], ast.Tuple) else [t.elts[2]]):
                            cnt = cnt * self.poly(x)
                        if len(sub) == 1 and sub[0].sub is None:
                            sub[0].count = sub[0].count * cnt
                        else:
                            sub = [Field(fname, 'struct', 0, cnt, sub=sub)]
                    if len(sub) == 1 and sub[0].sub is None and not isinstance(t.elts[1], (ast.Name, ast.Attribute)) or \
                            (len(sub) == 1 and sub[0].name == fname and sub[0].sub is None):
                        f = sub[0]
                        f.name = fname
                        out.append(f)
                    else:
                        out.append(Field(fname, 'struct', 0, 1, sub=sub))
                else:
                    raise AnalysisError('dtype list element not understood: %s' % norm(t))
            return out
        if isinstance(e, ast.Tuple) and len(e.elts) == 2:
            # (base, (n,)) sub-array
            base = self.eval(e.elts[0], name)
            shp = e.elts[1]
            cnt = Poly.const(1)
            for x in (shp.elts if isinstance(shp, ast.Tuple) else [shp]):
                cnt = cnt * self.poly(x)
            return [Field(name, 'struct', 0, cnt, sub=base)]
        raise AnalysisError('dtype expression not understood: %s' % norm(e)[:80])

    def _names_formats(self, names, fmts):
        if names is None or fmts is None:
            raise AnalysisError('dict(names=, formats=) dtype without both keys')
        nl = self._strlist(names)
        fl = self._exprlist(fmts)
        if len(nl) != len(fl):
            # formats=[x] * n  style is handled in _exprlist; otherwise an error in the source
            raise AnalysisError('names/formats length mismatch: %d names, %d formats' % (len(nl), len(fl)))
        out = []
        for n, f in zip(nl, fl):
            sub = self.eval(f, n)
            if len(sub) == 1 and sub[0].sub is None:
                sub[0].name = n
                out.append(sub[0])
            else:
                out.append(Field(n, 'struct', 0, 1, sub=sub))
        return out

    def _strlist(self, e, depth=0):
        if isinstance(e, ast.Name) and e.id in self.b and depth < 5:
            return self._strlist(self.b[e.id], depth + 1)       # a named list of field names
        if isinstance(e, ast.BinOp) and isinstance(e.op, ast.Add) and depth < 8:
            return self._strlist(e.left, depth + 1) + self._strlist(e.right, depth + 1)
        if isinstance(e, (ast.List, ast.Tuple)):
            return [const_str(x) if const_str(x) is not None else norm(x) for x in e.elts]
        raise AnalysisError('names list not literal: %s' % norm(e)[:60])

    def _exprlist(self, e, depth=0):
        if isinstance(e, ast.Name) and e.id in self.b and depth < 5:
            return self._exprlist(self.b[e.id], depth + 1)
        if isinstance(e, ast.BinOp) and isinstance(e.op, ast.Add) and depth < 8:
            return self._exprlist(e.left, depth + 1) + self._exprlist(e.right, depth + 1)       # concatenated format lists
        if isinstance(e, (ast.List, ast.Tuple)):
            return list(e.elts)
        if isinstance(e, ast.Call) and isinstance(e.func, ast.Attribute) and e.func.attr == 'split' and const_str(e.func.value) is not None:
            s = const_str(e.func.value)
            sep = const_str(e.args[0]) if e.args else None
            return [ast.Constant(value=x.strip().rstrip(',')) for x in (s.split(sep) if sep else s.split())]
        raise AnalysisError('formats list not literal: %s' % norm(e)[:60])


def _fold_str(e):
    if isinstance(e, ast.Constant) and isinstance(e.value, str):
        return e.value
    if isinstance(e, ast.BinOp) and isinstance(e.op, ast.Add):
        l, r = _fold_str(e.left), _fold_str(e.right)
        if l is not None and r is not None:
            return l + r
    return None


def describe(fields):
    return ', '.join('%s=%s*%s%d' % (f.name, f.count, f.kind, f.itemsize) if f.sub is None else '%s=%s*{%s}' % (f.name, f.count, describe(f.sub)) for f in fields)
