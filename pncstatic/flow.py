"""E3: syntax-directed forward walk over the statement kinds the repository
uses, carrying an abstract state {name: value} and joining at merge points.

Client supplies
  transfer(stmt, state) -> state        for simple statements
  vjoin(a, b) -> value                  join of two abstract values
  cond(test, state) -> (st_true, st_false)   optional branch refinement
  bind(target, iter_or_ctx, state, node) -> state   for 'for' / 'with' targets
A value missing from a state means "unbound on that path" (bottom).
"""
import ast


class Walker(object):
    MAXITER = 6

    def __init__(self, transfer, vjoin, cond=None, bind=None, on_stmt=None):
        self.transfer = transfer
        self.vjoin = vjoin
        self.cond = cond
        self.bind = bind
        self.on_stmt = on_stmt      # observer(stmt, state_before)
        self.exits = []             # (kind, node, state)
        self._loops = []            # stack of dict(breaks=[], continues=[])
        self._try_states = []       # stack of lists collecting states inside try bodies

    # -- lattice helpers -----------------------------------------------------
    def join(self, a, b):
        if a is None:
            return b
        if b is None:
            return a
        if a is b:
            return a
        out = {}
        for k in set(a) | set(b):
            if k in a and k in b:
                out[k] = a[k] if a[k] == b[k] else self.vjoin(a[k], b[k])
            else:
                # bound on one path only: keep (may-information)
                out[k] = self.vjoin(a[k], None) if k in a else self.vjoin(None, b[k])
        return out

    def joinall(self, states):
        out = None
        for s in states:
            out = self.join(out, s)
        return out

    # -- execution -----------------------------------------------------------
    def run(self, body, state):
        self.exits = []
        out = self.block(body, dict(state))
        if out is not None:
            self.exits.append(('fallthrough', None, out))
        return out

    def block(self, stmts, st):
        for s in stmts:
            if st is None:
                return None
            st = self.stmt(s, st)
        return st

    def _note(self, st):
        for lst in self._try_states:
            lst.append(st)

    def stmt(self, s, st):
        if self.on_stmt is not None:
            self.on_stmt(s, st)
        if isinstance(s, ast.If):
            if self.cond is not None:
                t, f = self.cond(s.test, st)
            else:
                t, f = st, st
            t = self.transfer(ast.Expr(value=s.test), t) if t is not None else None
            a = self.block(s.body, t) if t is not None else None
            b = self.block(s.orelse, f) if f is not None else None
            out = self.join(a, b)
        elif isinstance(s, (ast.For, ast.AsyncFor, ast.While)):
            out = self.loop(s, st)
        elif isinstance(s, ast.Try):
            out = self.try_(s, st)
        elif isinstance(s, (ast.With, ast.AsyncWith)):
            cur = st
            for item in s.items:
                cur = self.transfer(ast.Expr(value=item.context_expr), cur)
                if item.optional_vars is not None and self.bind is not None:
                    cur = self.bind(item.optional_vars, item.context_expr, cur, s)
            out = self.block(s.body, cur)
        elif isinstance(s, ast.Return):
            st2 = self.transfer(s, st)
            self.exits.append(('return', s, st2))
            out = None
        elif isinstance(s, ast.Raise):
            st2 = self.transfer(s, st)
            self.exits.append(('raise', s, st2))
            out = None
        elif isinstance(s, ast.Break):
            if self._loops:
                self._loops[-1]['breaks'].append(st)
            out = None
        elif isinstance(s, ast.Continue):
            if self._loops:
                self._loops[-1]['continues'].append(st)
            out = None
        else:
            out = self.transfer(s, st)
        if out is not None:
            self._note(out)
        return out

    def loop(self, s, st):
        is_for = not isinstance(s, ast.While)
        if is_for:
            st = self.transfer(ast.Expr(value=s.iter), st)
        entry = st
        frame = dict(breaks=[], continues=[])
        for _ in range(self.MAXITER):
            self._loops.append(frame)
            cur = entry
            if is_for:
                if self.bind is not None:
                    cur = self.bind(s.target, s.iter, cur, s)
            else:
                if self.cond is not None:
                    cur, _f = self.cond(s.test, cur)
                if cur is not None:
                    cur = self.transfer(ast.Expr(value=s.test), cur)
            body_out = self.block(s.body, cur) if cur is not None else None
            self._loops.pop()
            back = self.joinall([body_out] + frame['continues'])
            new_entry = self.join(entry, back)
            if new_entry == entry:
                break
            entry = new_entry
            frame['continues'] = []
        # normal exit: iterable exhausted / condition false
        exit_state = entry
        if not is_for and self.cond is not None:
            _t, exit_state = self.cond(s.test, entry)
            if isinstance(s.test, ast.Constant) and s.test.value is True:
                exit_state = None
        out = self.block(s.orelse, exit_state) if (s.orelse and exit_state is not None) else exit_state
        return self.joinall([out] + frame['breaks'])

    def try_(self, s, st):
        collected = [st]
        self._try_states.append(collected)
        body_out = self.block(s.body, st)
        self._try_states.pop()
        outs = []
        if body_out is not None:
            outs.append(self.block(s.orelse, body_out) if s.orelse else body_out)
        if s.handlers:
            hin = self.joinall(collected)
            for h in s.handlers:
                cur = hin
                if h.name and self.bind is not None:
                    cur = self.bind(ast.Name(id=h.name, ctx=ast.Store()), h.type, cur, h)
                outs.append(self.block(h.body, cur))
        out = self.joinall(outs)
        if s.finalbody:
            out = self.block(s.finalbody, out) if out is not None else None
        return out
