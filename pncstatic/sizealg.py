"""E5: size algebra - AST arithmetic -> polynomial with rational coefficients over opaque atoms.
Two expressions are equal iff their normal forms are identical (constant folding / affine
normalisation, not a solver)."""
import ast
from fractions import Fraction

from .engine import norm


class Poly(object):
    """dict: monomial (sorted tuple of (atom, power)) -> Fraction"""

    def __init__(self, terms=None):
        self.t = dict((k, Fraction(v)) for k, v in (terms or {}).items() if v != 0)

    @staticmethod
    def const(c):
        return Poly({(): Fraction(c)})

    @staticmethod
    def atom(name):
        return Poly({((name, 1),): 1})

    def __add__(self, o):
        o = _p(o)
        d = dict(self.t)
        for k, v in o.t.items():
            d[k] = d.get(k, 0) + v
        return Poly(d)

    __radd__ = __add__

    def __neg__(self):
        return Poly(dict((k, -v) for k, v in self.t.items()))

    def __sub__(self, o):
        return self + (-_p(o))

    def __rsub__(self, o):
        return _p(o) - self

    def __mul__(self, o):
        o = _p(o)
        d = {}
        for k1, v1 in self.t.items():
            for k2, v2 in o.t.items():
                m = {}
                for a, p in k1 + k2:
                    m[a] = m.get(a, 0) + p
                k = tuple(sorted((a, p) for a, p in m.items() if p != 0))
                d[k] = d.get(k, 0) + v1 * v2
        return Poly(d)

    __rmul__ = __mul__

    def divconst(self, c):
        return Poly(dict((k, v / Fraction(c)) for k, v in self.t.items()))

    def divexact(self, o):
        """exact division by a single-term polynomial; None if not exact"""
        o = _p(o)
        if len(o.t) != 1:
            return None
        (mono, coef), = o.t.items()
        d = {}
        for k, v in self.t.items():
            m = dict(k)
            for a, p_ in mono:
                if m.get(a, 0) < p_:
                    return None
                m[a] -= p_
            d[tuple(sorted((a, p_) for a, p_ in m.items() if p_ != 0))] = v / coef
        return Poly(d)

    def is_const(self):
        return all(k == () for k in self.t)

    def constval(self):
        return self.t.get((), Fraction(0)) if self.is_const() else None

    def __eq__(self, o):
        return isinstance(o, (Poly, int, Fraction)) and self.t == _p(o).t

    def __ne__(self, o):
        return not self.__eq__(o)

    def __hash__(self):
        return hash(tuple(sorted(self.t.items())))

    def atoms(self):
        return set(a for k in self.t for a, p in k)

    def subst(self, mapping):
        """substitute atoms by Polys"""
        out = Poly()
        for k, v in self.t.items():
            term = Poly.const(v)
            for a, p in k:
                base = mapping.get(a, Poly.atom(a))
                if p < 0:
                    return None
                for _ in range(p):
                    term = term * base
            out = out + term
        return out

    def __repr__(self):
        if not self.t:
            return '0'
        parts = []
        for k, v in sorted(self.t.items(), key=lambda kv: (len(kv[0]), kv[0])):
            mono = '*'.join(a if p == 1 else '%s**%d' % (a, p) for a, p in k)
            if not mono:
                parts.append(str(v))
            elif v == 1:
                parts.append(mono)
            else:
                parts.append('%s*%s' % (v, mono))
        return ' + '.join(parts)


def _p(x):
    return x if isinstance(x, Poly) else Poly.const(x)


def to_poly(e, env=None, atomize=None):
    """AST expression -> Poly.  env: name -> Poly ; atomize(node) -> atom name or None for
    non-arithmetic sub-expressions (default: normalised source text)."""
    env = env or {}

    def rec(n):
        if isinstance(n, ast.Constant) and isinstance(n.value, (int, float)) and not isinstance(n.value, bool):
            return Poly.const(Fraction(n.value).limit_denominator(10**9))
        if isinstance(n, ast.Name):
            if n.id in env:
                return env[n.id]
            return Poly.atom(n.id)
        if isinstance(n, ast.UnaryOp) and isinstance(n.op, ast.USub):
            return -rec(n.operand)
        if isinstance(n, ast.UnaryOp) and isinstance(n.op, ast.UAdd):
            return rec(n.operand)
        if isinstance(n, ast.BinOp):
            if isinstance(n.op, ast.Add):
                return rec(n.left) + rec(n.right)
            if isinstance(n.op, ast.Sub):
                return rec(n.left) - rec(n.right)
            if isinstance(n.op, ast.Mult):
                return rec(n.left) * rec(n.right)
            if isinstance(n.op, (ast.Div, ast.FloorDiv)):
                r = rec(n.right)
                c = r.constval()
                if c is not None and c != 0 and isinstance(n.op, ast.Div):
                    return rec(n.left).divconst(c)
                if c is not None and c != 0:
                    l = rec(n.left)
                    lc = l.constval()
                    if lc is not None:
                        return Poly.const(lc // c)
                if isinstance(n.op, ast.FloorDiv):
                    q = rec(n.left).divexact(r)
                    if q is not None:
                        return q
            if isinstance(n.op, ast.Pow):
                r = rec(n.right).constval()
                if r is not None and r.denominator == 1 and 0 <= r <= 6:
                    out = Poly.const(1)
                    b = rec(n.left)
                    for _ in range(int(r)):
                        out = out * b
                    return out
        if isinstance(n, ast.Call) and isinstance(n.func, ast.Name) and n.func.id in ('int', 'float') and len(n.args) == 1:
            return rec(n.args[0])
        a = atomize(n) if atomize else None
        return Poly.atom(a if a is not None else norm(n))
    return rec(e)
