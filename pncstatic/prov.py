"""E4: provenance lattice (alias / view dataflow) over one function body.

Abstract value = (kind, src)
  FILE  the file object itself                       src: 'self' | 'param:p' | 'new' | '?'
  VARS  X.variables                                   (container of src)
  DIMS  X.dimensions
  SAME  an object that *is* part of src's storage     (variable / dimension object)
  VIEW  an ndarray view of src's storage
  ATTR  an attribute value read from a file/variable  (scalar or array; weak)
  FRESH newly allocated, shares nothing
  UNK   anything else
Alarms are raised by the rules only on VIEW / SAME / VARS / DIMS / FILE with a
definite input src (must-alias).  UNK never alarms.
"""
import ast

from .engine import dotted, kw, norm, walk_expr, parent_chain
from .flow import Walker

FRESH = ('FRESH', None)
UNK = ('UNK', None)

# --- frozen numpy / python fact tables (one line of reason each) ------------
VIEW_ATTRS = {
    'T': 'transpose is a view', 'real': 'view', 'imag': 'view', 'flat': 'iterator over the same buffer',
    'data': 'MaskedArray.data / ndarray.data share the buffer', 'mask': 'MaskedArray.mask is the mask array itself',
    'base': 'the owner of the buffer',
}
FRESH_ATTRS = set(['shape', 'size', 'ndim', 'dtype', 'dimensions', 'itemsize', 'nbytes', 'strides',
                   'units', 'long_name', 'var_desc', 'name', '_name', 'standard_name'])
VIEW_METHODS = {
    'view': 'ndarray.view never copies', 'swapaxes': 'returns a view', 'transpose': 'returns a view',
    'squeeze': 'returns a view', 'diagonal': 'view (numpy>=1.9)', 'array': 'PseudoNetCDFVariable.array = self.view(ndarray)',
}
FRESH_METHODS = set([
    'copy', 'astype', 'filled', 'sum', 'mean', 'min', 'max', 'std', 'var', 'prod', 'cumsum', 'cumprod',
    'tolist', 'compressed', 'take', 'repeat', 'round', 'clip', 'argmin', 'argmax', 'argsort', 'any', 'all',
    'nonzero', 'item', 'tobytes', 'tostring', 'dot', 'conj', 'flatten', 'choose', 'ptp', 'count', 'anom',
    'strip', 'split', 'join', 'replace', 'format', 'lower', 'upper', 'ljust', 'rjust', 'encode', 'decode',
    'getTimes', 'ncattrs', 'getCoords', 'isunlimited', 'getncatts', 'total_seconds', 'strftime',
])
# astype(copy=False) is the one exception; handled below
NP_VIEW_FUNCS = {
    'asarray': 'no copy when already an ndarray', 'asanyarray': 'no copy', 'atleast_1d': 'no copy for ndim>=1',
    'atleast_2d': 'view', 'atleast_3d': 'view', 'rollaxis': 'view', 'moveaxis': 'view', 'swapaxes': 'view',
    'transpose': 'view', 'squeeze': 'view', 'expand_dims': 'view', 'broadcast_to': 'read-only view',
    'ma.array': 'np.ma.array(copy=False) default shares data', 'ma.masked_array': 'shares data (copy=False default)',
    'ma.asarray': 'no copy', 'ma.asanyarray': 'no copy', 'ma.getdata': 'the data array itself', 'ma.getmaskarray': 'mask array or new',
    'ascontiguousarray': 'no copy when already contiguous', 'ma.MaskedArray': 'shares data (copy=False default)',
}
NP_FRESH_FUNCS = set([
    'array', 'append', 'concatenate', 'ma.concatenate', 'diff', 'arange', 'zeros', 'ones', 'empty', 'full',
    'zeros_like', 'ones_like', 'empty_like', 'full_like', 'linspace', 'where', 'interp', 'sum', 'mean', 'prod',
    'cumsum', 'round', 'floor', 'ceil', 'minimum', 'maximum', 'abs', 'sqrt', 'exp', 'log', 'stack', 'vstack',
    'hstack', 'dstack', 'repeat', 'tile', 'meshgrid', 'take', 'isin', 'in1d', 'isfinite', 'isnan', 'allclose',
    'array_equal', 'argmax', 'argmin', 'unique', 'sort', 'copy', 'ma.masked_where', 'ma.masked_invalid',
    'ma.masked_greater', 'ma.masked_greater_equal', 'ma.masked_less', 'ma.masked_less_equal', 'ma.masked_values',
    'ma.masked_equal', 'ma.masked_outside', 'ma.masked_inside', 'ma.floor', 'ma.exp', 'ma.log', 'ma.sum',
    'ma.mean', 'ma.average', 'ma.filled_like', 'apply_along_axis', 'convolve', 'indices', 'ndindex', 'digitize',
    'searchsorted', 'clip', 'cumprod', 'nanmean', 'nansum', 'percentile', 'median', 'ma.median', 'fromfile',
    'frombuffer_copy', 'genfromtxt', 'loadtxt', 'char.array', 'datetime64', 'timedelta64',
])
INPLACE_METHODS = {
    'sort': 'sorts in place', 'fill': 'fills in place', 'itemset': 'stores in place', 'put': 'stores in place',
    'resize': 'in-place resize', 'partition': 'in place', 'setfield': 'in place', 'setflags': 'changes flags',
    'byteswap_inplace': '', 'harden_mask': 'changes mask state', 'soften_mask': 'changes mask state',
    'unshare_mask': '', 'set_fill_value': 'changes fill_value',
}
CONTAINER_MUTATORS = set(['pop', 'update', 'clear', 'setdefault', 'popitem', 'move_to_end', 'append', 'extend',
                          'insert', 'remove', 'sort', 'reverse', 'addkey', '__setitem__', '__delitem__'])
NP_MASKED_CTORS = {'ma.masked_where': 1, 'ma.masked_invalid': 0, 'ma.masked_equal': 0, 'ma.masked_not_equal': 0, 'ma.masked_values': 0,
                   'ma.masked_greater': 0, 'ma.masked_greater_equal': 0, 'ma.masked_less': 0, 'ma.masked_less_equal': 0,
                   'ma.masked_inside': 0, 'ma.masked_outside': 0, 'ma.masked_object': 0}
NP_INPLACE_FUNCS = {'put': 0, 'place': 0, 'copyto': 0, 'putmask': 0, 'ma.putmask': 0, 'fill_diagonal': 0,
                    'put_along_axis': 0, 'random.shuffle': 0}
# methods that mutate a *file* by contract (frozen, confirmed by reading core/_files.py)
FILE_MUTATOR_METHODS = set([
    'createDimension', 'createVariable', 'copyVariable', 'copyDimension', 'setncattr', 'setncatts', 'delncattr',
    'setCoords', 'set_varopt', 'set_dest', 'updatemeta', 'updatetflag', 'renameAttribute',
    '__setattr__', '__delattr__', 'setunlimited', 'assignValue', 'close', 'sync', 'flush',
])
VAR_MUTATOR_METHODS = set(['setncattr', 'setncatts', 'delncattr', 'setunlimited', 'assignValue', '__setattr__',
                           '__delattr__'])


def is_input(src):
    return src is not None and not src.endswith('?') and \
        (src == 'self' or src.startswith('param:') or src.startswith('global:'))


def is_maybe_input(src):
    """'param:f?' = the input on at least one path through a merge point (e.g. a loop
    that may run zero times), a fresh file on another"""
    return src is not None and src.endswith('?') and is_input(src[:-1])


def vjoin(a, b):
    if a is None:
        a = UNK if b is None else b  # unbound on one path: keep may-information of the other
        return a if b is None or a == b else UNK
    if b is None:
        return a
    if a == b:
        return a
    if a[0] == b[0] and a[0] == 'FILE':
        bases = set(x.rstrip('?') for x in (a[1], b[1]) if x is not None) - set(['new'])
        if len(bases) == 1 and is_input(list(bases)[0]):
            return ('FILE', list(bases)[0] + '?')
        return ('FILE', '?')
    # VIEW/SAME of the same source stay VIEW (weaker of the two)
    if set([a[0], b[0]]) <= set(['VIEW', 'SAME']):
        if a[1] == b[1]:
            return ('VIEW', a[1])
        if a[1] is not None and b[1] is not None and a[1].rstrip('?') == b[1].rstrip('?'):
            return ('VIEW', a[1].rstrip('?') + '?')
        return UNK
    # a view on one path, a fresh array on the other (e.g. a copying loop that may run zero
    # times): "maybe view" - never alarmed as a write (R-QMUT), reported by R-ALIAS as the
    # path on which the stored value still aliases
    for x, y in ((a, b), (b, a)):
        if x[0] in ('VIEW', 'SAME') and y[0] == 'FRESH' and x[1] is not None and x[1] != 'new':
            return ('VIEW', x[1].rstrip('?') + '?')
    return UNK


class Event(object):
    """A sink that was reached: kind in
    store-sub, store-attr, aug-name, aug-sub, del-sub, del-attr, inplace-call, mutator-call,
    out-kw, result-store, result-values, result-dims, return"""

    def __init__(self, kind, node, stmt, base, value=None, extra=None, guarded_inplace=False):
        self.kind = kind
        self.node = node
        self.stmt = stmt
        self.base = base        # abstract value of the mutated / receiving object
        self.value = value      # abstract value being stored (for result-*)
        self.extra = extra
        self.guarded_inplace = guarded_inplace

    def __repr__(self):
        return 'Event(%s, %s, base=%s, value=%s)' % (self.kind, norm(self.stmt)[:60], self.base, self.value)


class Prov(object):
    def __init__(self, mod, func, receiver='self', file_params=(), obj_params=(),
                 globals_tracked=(), new_file_calls=(), file_classes=(), var_classes=(),
                 filelist_params=(), int_index_views=False):
        """file_params: parameter names that are file objects (inputs);
        obj_params: parameters that are variable-like / array inputs;
        globals_tracked: module-level mutable containers to follow."""
        self.mod = mod
        self.func = func
        self.np = mod.numpy_aliases() | set(['np', 'numpy'])
        self.npnames = mod.numpy_names()
        self.events = []
        self.unknown_calls = 0
        self.calls = 0
        self.globals_tracked = set(globals_tracked)
        self.int_index_views = int_index_views
        self.new_file_calls = set(new_file_calls) | set([
            '_copywith', '_newlike', 'copy', 'subsetVariables', 'sliceDimensions', 'applyAlongDimensions',
            'removeSingleton', 'renameVariables', 'renameDimensions', 'insertDimension', 'stack', 'eval', 'mask',
            'interpDimension', 'interpSigma', 'from_ncvs', 'from_ncf', 'from_arrays', 'slice', 'apply', 'subset',
            'reorderDimensions', 'renameVariable', 'renameDimension', 'convert'])
        self.file_classes = set(file_classes) | set(['PseudoNetCDFFile', 'netcdf', 'cls', 'WrapPNC', 'ioapi_base'])
        self.var_classes = set(var_classes) | set(['PseudoNetCDFVariable', 'PseudoNetCDFMaskedVariable'])
        self.file_returning_funcs = set(['getvarpnc', 'slice_dim', 'reduce_dim', 'interpvars', 'extract_lonlat',
                                         'extract', 'pncbo', 'pncfunc', 'pncbfunc', 'pncexpr', 'merge', 'stack_files',
                                         'splitdim', 'convolve_dim', 'removesingleton', 'manglenames', 'pncrename',
                                         'newresolution', 'get_ncf_object'])
        init = {}
        args = func.args
        names = [a.arg for a in args.posonlyargs + args.args + args.kwonlyargs]
        if args.vararg:
            names.append(args.vararg.arg)
        if args.kwarg:
            names.append(args.kwarg.arg)
        for n in names:
            if n == receiver and receiver:
                init[n] = ('FILE', 'self')
            elif n in file_params:
                init[n] = ('FILE', 'param:' + n)
            elif n in obj_params:
                init[n] = ('SAME', 'param:' + n)
            elif n in filelist_params:
                init[n] = ('FILES', 'param:' + n)
            else:
                init[n] = UNK
        self.init = init
        self.param_names = set(names)

    # ---------------------------------------------------------------- eval --
    def npfunc(self, call):
        """'asarray' / 'ma.masked_where' ... if call.func is a numpy function, else None"""
        d = dotted(call.func)
        if d is None:
            return None
        parts = d.split('.')
        if parts[0] in self.np and len(parts) > 1:
            return '.'.join(parts[1:])
        if len(parts) == 1 and parts[0] in self.npnames:
            return self.npnames[parts[0]]
        if len(parts) == 2 and parts[0] == 'ma' and 'ma' in self.npnames:
            return 'ma.' + parts[1]
        return None

    def basic_index(self, idx):
        """True if idx is certainly numpy *basic* indexing that yields an array view."""
        elts = idx.elts if isinstance(idx, ast.Tuple) else [idx]
        has_slice = False
        for e in elts:
            if isinstance(e, ast.Slice) or (isinstance(e, ast.Constant) and e.value is Ellipsis):
                has_slice = True
            elif isinstance(e, ast.Constant) and (e.value is None or isinstance(e.value, int)):
                continue
            elif isinstance(e, ast.Name) and getattr(self, 'int_index_views', False):
                has_slice = True      # caller asserts: N-D arrays indexed by loop counters yield sub-array views
                continue
            elif isinstance(e, ast.UnaryOp) and isinstance(e.operand, ast.Constant) and isinstance(e.operand.value, int):
                continue
            elif isinstance(e, ast.Attribute) and dotted(e) in ('np.newaxis', 'numpy.newaxis'):
                continue
            else:
                return False
        return has_slice

    def ev(self, e, st):
        if e is None:
            return UNK
        if isinstance(e, ast.Name):
            if e.id in st:
                return st[e.id]
            if e.id in self.globals_tracked:
                return ('SAME', 'global:' + e.id)
            return UNK
        if isinstance(e, ast.Constant):
            return FRESH
        if isinstance(e, (ast.BinOp, ast.Compare, ast.UnaryOp, ast.JoinedStr, ast.ListComp, ast.DictComp,
                          ast.SetComp, ast.GeneratorExp, ast.Dict, ast.Set)):
            for sub in ast.iter_child_nodes(e):
                if isinstance(sub, ast.expr):
                    self.scan_calls(sub, st)
            return FRESH
        if isinstance(e, (ast.List, ast.Tuple)):
            for sub in e.elts:
                self.scan_calls(sub, st)
            return FRESH
        if isinstance(e, ast.BoolOp):
            v = None
            for x in e.values:
                v = vjoin(v, self.ev(x, st)) if v is not None else self.ev(x, st)
            return v
        if isinstance(e, ast.IfExp):
            self.scan_calls(e.test, st)
            return vjoin(self.ev(e.body, st), self.ev(e.orelse, st))
        if isinstance(e, ast.Starred):
            return self.ev(e.value, st)
        if isinstance(e, ast.Attribute):
            b = self.ev(e.value, st)
            if b[0] == 'FILE':
                if e.attr == 'variables':
                    return ('VARS', b[1])
                if e.attr == 'dimensions':
                    return ('DIMS', b[1])
                if e.attr == 'groups':
                    return UNK
                return ('ATTR', b[1])
            if b[0] in ('SAME', 'VIEW'):
                if e.attr in VIEW_ATTRS:
                    return ('VIEW', b[1])
                if e.attr in FRESH_ATTRS:
                    return FRESH
                return ('ATTR', b[1])
            if b[0] == 'FRESH' and e.attr in VIEW_ATTRS:
                return FRESH
            return UNK
        if isinstance(e, ast.Subscript):
            b = self.ev(e.value, st)
            self.scan_calls(e.slice, st)
            if b[0] in ('VARS', 'DIMS'):
                return ('SAME', b[1])
            if b[0] == 'FILES':
                if isinstance(e.slice, ast.Slice):
                    return b
                return ('FILE', b[1])
            if b[0] in ('SAME', 'VIEW'):
                if b[1] is not None and b[1].startswith('global:'):
                    # tracked module globals are Python containers: a slice of a list is a new list
                    return FRESH if isinstance(e.slice, ast.Slice) else UNK
                if self.basic_index(e.slice):
                    return ('VIEW', b[1])
                return UNK
            if b[0] == 'FRESH':
                return FRESH
            return UNK
        if isinstance(e, ast.Call):
            return self.ev_call(e, st)
        if isinstance(e, ast.NamedExpr):
            return self.ev(e.value, st)
        return UNK

    def scan_calls(self, e, st):
        """evaluate nested calls for their side effects (sinks)"""
        if isinstance(e, ast.Call):
            self.ev_call(e, st)
            return
        for sub in ast.iter_child_nodes(e):
            if isinstance(sub, (ast.Lambda, ast.FunctionDef)):
                continue
            if isinstance(sub, (ast.expr, ast.keyword, ast.comprehension)):
                self.scan_calls(sub, st)

    def ev_call(self, c, st):
        self.calls += 1
        stmt = self._cur
        argvals = [self.ev(a, st) for a in c.args]
        kwvals = dict((k.arg, self.ev(k.value, st)) for k in c.keywords)
        f = c.func
        # out= keyword
        if 'out' in kwvals and kwvals['out'][0] in ('VIEW', 'SAME'):
            self.emit('out-kw', c, stmt, kwvals['out'])
        npf = self.npfunc(c)
        if npf is not None:
            if npf in NP_INPLACE_FUNCS and argvals:
                v = argvals[NP_INPLACE_FUNCS[npf]]
                if v[0] in ('VIEW', 'SAME'):
                    self.emit('inplace-call', c, stmt, v, extra='np.' + npf)
                return FRESH
            if npf in ('ma.fix_invalid', 'nan_to_num'):
                # repair of non-finite cells; with copy=False the data (and mask) of the argument itself are overwritten
                cp = kw(c, 'copy')
                arr = argvals[0] if argvals else kwvals.get('a', kwvals.get('x', UNK))
                if cp is not None and not (isinstance(cp, ast.Constant) and cp.value is True):
                    if arr[0] in ('VIEW', 'SAME'):
                        self.emit('inplace-call', c, stmt, arr, extra='np.%s(copy=False) overwrites the non-finite cells of its argument' % npf)
                        return ('VIEW', arr[1])
                    return FRESH if arr[0] == 'FRESH' else UNK
                return FRESH
            if npf in NP_MASKED_CTORS:
                # np.ma.masked_*(…, copy=True) by default; with copy=False the result is a view of the array argument and, when that
                # argument is already masked, the new condition is OR-ed into its mask array in place
                cp = kw(c, 'copy')
                pos = NP_MASKED_CTORS[npf]
                arr = argvals[pos] if len(argvals) > pos else kwvals.get('a', kwvals.get('x', UNK))
                if cp is not None and not (isinstance(cp, ast.Constant) and cp.value is True):
                    if arr[0] in ('VIEW', 'SAME'):
                        self.emit('inplace-call', c, stmt, arr, extra='np.%s(copy=False) writes the condition into the mask of its argument' % npf)
                        return ('VIEW', arr[1])
                    return FRESH if arr[0] == 'FRESH' else UNK
                return FRESH
            if npf in NP_VIEW_FUNCS:
                if npf == 'array' or not argvals:
                    return FRESH
                v = argvals[0]
                cp = kw(c, 'copy')
                if cp is not None and isinstance(cp, ast.Constant) and cp.value is True:
                    return FRESH
                if v[0] in ('VIEW', 'SAME'):
                    return ('VIEW', v[1])
                return FRESH if v[0] == 'FRESH' else UNK
            if npf == 'array':
                cp = kw(c, 'copy')
                if cp is not None and isinstance(cp, ast.Constant) and cp.value is False and argvals \
                        and argvals[0][0] in ('VIEW', 'SAME'):
                    return ('VIEW', argvals[0][1])
                return FRESH
            if npf in NP_FRESH_FUNCS:
                return FRESH
            if npf in ('ma.filled',):
                return UNK   # returns its argument unchanged when not masked
            self.unknown_calls += 1
            return UNK
        if isinstance(f, ast.Attribute):
            recv = self.ev(f.value, st)
            m = f.attr
            # super().x / Base.x(self, ...) handled by rules through dotted names
            if recv[0] == 'FILE':
                if m in FILE_MUTATOR_METHODS:
                    self.emit('mutator-call', c, stmt, recv, extra=m)
                    # values= passed to createVariable is a result sink
                if m == 'getVarlist':
                    # the IOAPI variable-list query rewrites VAR-LIST / NVARS / the VAR dimension of its receiver unless update=False
                    upd = kw(c, 'update') or (c.args[0] if c.args else None)
                    if not (isinstance(upd, ast.Constant) and upd.value is False):
                        self.emit('mutator-call', c, stmt, recv, extra='getVarlist(update=True)')
                    return FRESH
                if m == 'createVariable' and 'values' in kwvals:
                    self.emit('result-values', c, stmt, recv, value=kwvals['values'], extra=m)
                if m in ('createVariable', 'copyVariable'):
                    return ('SAME', 'new' if recv[1] == 'new' else recv[1])
                if m in ('createDimension', 'copyDimension'):
                    return ('SAME', recv[1])
                if m in self.new_file_calls:
                    return ('FILE', 'new')
                if m in ('getTimes', 'ncattrs', 'getCoords', 'val2idx', 'time2idx', 'getncatts', 'get_varopt',
                         'get_dest', 'getproj', 'll2ij', 'ij2ll', 'xy2ll', 'll2xy', 'date2num', 'iswritable',
                         '_getxdim', '_getydim', '_getzdim', '_gettdim'):
                    return FRESH
                self.unknown_calls += 1
                return UNK
            if recv[0] in ('VARS', 'DIMS'):
                if m in ('get',):
                    return ('SAME', recv[1])
                if m in ('items', 'values', 'keys', 'copy'):
                    if m == 'copy':
                        # shallow copy: the member objects are shared
                        return (recv[0] + 'COPY', recv[1])
                    return ('ITER' + m.upper(), recv[1])
                if m in CONTAINER_MUTATORS:
                    self.emit('inplace-call', c, stmt, recv, extra=m)
                    return UNK
                return UNK
            if recv[0] in ('SAME', 'VIEW'):
                if recv[1] is not None and recv[1].startswith('global:') and m in CONTAINER_MUTATORS:
                    self.emit('inplace-call', c, stmt, recv, extra=m)
                    return UNK
                if m in INPLACE_METHODS:
                    self.emit('inplace-call', c, stmt, recv, extra=m)
                    return FRESH
                if m in VAR_MUTATOR_METHODS:
                    self.emit('mutator-call', c, stmt, recv, extra=m)
                    return FRESH
                if m == 'byteswap' and c.args and isinstance(c.args[0], ast.Constant) and c.args[0].value is True:
                    self.emit('inplace-call', c, stmt, recv, extra=m)
                if m in VIEW_METHODS:
                    return ('VIEW', recv[1])
                if m == 'astype':
                    cp = kw(c, 'copy')
                    if cp is not None and isinstance(cp, ast.Constant) and cp.value is False:
                        return UNK
                    return FRESH
                if m in FRESH_METHODS:
                    return FRESH
                if m in ('reshape', 'ravel'):
                    return UNK
                self.unknown_calls += 1
                return UNK
            if recv[0] == 'FRESH':
                if m in VIEW_METHODS or m in FRESH_METHODS or m in ('reshape', 'ravel', 'astype'):
                    return FRESH
                return UNK
            # unknown receiver: class constructors spelled mod.Class(...)
            if m in self.file_classes:
                return ('FILE', 'new')
            if m == '__new__' and c.args:
                return ('FILE', 'new')
            self.unknown_calls += 1
            return UNK
        if isinstance(f, ast.Name):
            n = f.id
            if n in self.var_classes:
                # PseudoNetCDFVariable(parent, name, type, dims, values=E): __new__ does result[...].view(subtype)
                parent = argvals[0] if argvals else UNK
                if 'values' in kwvals:
                    self.emit('result-values', c, stmt, parent, value=kwvals['values'], extra=n)
                    v = kwvals['values']
                    if v[0] in ('VIEW', 'SAME'):
                        return ('VIEW', v[1])
                    return FRESH if v[0] == 'FRESH' else UNK
                return FRESH
            if n == 'get_ncf_object' and argvals:
                # opens a path, but hands an already open file object back unchanged: the result may be the caller's object
                return vjoin(('FILE', 'new'), argvals[0]) if argvals[0][0] == 'FILE' else ('FILE', 'new')
            if n in self.file_classes or n in self.file_returning_funcs:
                return ('FILE', 'new')
            if n in ('list', 'tuple', 'dict', 'set', 'sorted', 'len', 'int', 'float', 'str', 'bool', 'range', 'sum',
                     'min', 'max', 'abs', 'round', 'enumerate', 'zip', 'map', 'filter', 'reversed', 'repr', 'type',
                     'isinstance', 'hasattr', 'any', 'all', 'OrderedDict', 'bytes', 'open', 'print', 'id', 'callable',
                     'timedelta', 'datetime', 'slice', 'iter', 'next', 'divmod', 'ord', 'chr', 'format'):
                return FRESH
            if n == 'getattr' and len(c.args) >= 2:
                b = argvals[0]
                nm = c.args[1]
                if isinstance(nm, ast.Constant) and b[0] == 'FILE':
                    if nm.value == 'variables':
                        return ('VARS', b[1])
                    if nm.value == 'dimensions':
                        return ('DIMS', b[1])
                if b[0] in ('FILE', 'SAME', 'VIEW'):
                    return ('ATTR', b[1])
                return UNK
            if n in ('setattr', 'delattr') and c.args:
                b = argvals[0]
                if b[0] in ('FILE', 'SAME', 'VIEW'):
                    nm = c.args[1] if len(c.args) > 1 else None
                    self.emit('store-attr' if n == 'setattr' else 'del-attr', c, stmt, b,
                              value=argvals[2] if len(argvals) > 2 else None,
                              extra=nm.value if isinstance(nm, ast.Constant) else None)
                return FRESH
            if n in self.npnames:
                pass
            self.unknown_calls += 1
            return UNK
        self.unknown_calls += 1
        return UNK

    # ------------------------------------------------------------ transfer --
    def emit(self, kind, node, stmt, base, value=None, extra=None):
        g = False
        for p in [stmt] + list(parent_chain(stmt)):
            par = getattr(p, '_parent', None)
            if isinstance(par, ast.If) and p in par.body and self._mentions_inplace(par.test):
                g = True
        key = (kind, id(node))
        for ev in self.events:
            if (ev.kind, id(ev.node)) == key:
                # keep the strongest (definite) base seen on any iteration
                if ev.base[0] == 'UNK' and base[0] != 'UNK':
                    ev.base = base
                if value is not None and (ev.value is None or ev.value[0] == 'UNK'):
                    ev.value = value
                return
        self.events.append(Event(kind, node, stmt, base, value, extra, g))

    @staticmethod
    def _mentions_inplace(test):
        if isinstance(test, ast.UnaryOp) and isinstance(test.op, ast.Not):
            return False
        for n in ast.walk(test):
            if isinstance(n, ast.Name) and n.id == 'inplace':
                return True
        return False

    def assign(self, target, val, st, stmt, valnode=None):
        if isinstance(target, ast.Name):
            st = dict(st)
            st[target.id] = val
            return st
        if isinstance(target, (ast.Tuple, ast.List)):
            elts = target.elts
            if valnode is not None and isinstance(valnode, (ast.Tuple, ast.List)) and len(valnode.elts) == len(elts):
                for t, v in zip(elts, valnode.elts):
                    st = self.assign(t, self.ev(v, st), st, stmt, v)
                return st
            # unpacking an array (a, b = x.T): each element is a view of the same storage
            each = ('VIEW', val[1]) if val is not None and val[0] in ('VIEW', 'SAME') and val[1] is not None and not val[1].startswith('global:') else UNK
            for t in elts:
                st = self.assign(t, each, st, stmt)
            return st
        if isinstance(target, ast.Starred):
            return self.assign(target.value, UNK, st, stmt)
        if isinstance(target, ast.Subscript):
            b = self.ev(target.value, st)
            self.scan_calls(target.slice, st)
            if b[0] in ('VARS',):
                self.emit('result-store', target, stmt, b, value=val)
            elif b[0] in ('DIMS',):
                self.emit('store-sub', target, stmt, b, value=val)
            elif b[0] in ('VIEW', 'SAME'):
                self.emit('store-sub', target, stmt, b, value=val)
            elif b[0] == 'ATTR':
                self.emit('store-sub', target, stmt, b, value=val)
            return st
        if isinstance(target, ast.Attribute):
            b = self.ev(target.value, st)
            if b[0] == 'FILE' and target.attr == 'dimensions':
                self.emit('result-dims', target, stmt, b, value=val)
            elif b[0] == 'FILE' and target.attr == 'variables':
                self.emit('result-vars', target, stmt, b, value=val)
            elif b[0] in ('FILE', 'SAME', 'VIEW'):
                self.emit('store-attr', target, stmt, b, value=val, extra=target.attr)
            return st
        return st

    def transfer(self, s, st):
        self._cur = s if not (isinstance(s, ast.Expr) and not hasattr(s, 'lineno')) else getattr(self, '_cur', s)
        if isinstance(s, ast.Assign):
            val = self.ev(s.value, st)
            for t in s.targets:
                st = self.assign(t, val, st, s, s.value)
            return st
        if isinstance(s, ast.AnnAssign):
            if s.value is not None:
                st = self.assign(s.target, self.ev(s.value, st), st, s, s.value)
            return st
        if isinstance(s, ast.AugAssign):
            self.scan_calls(s.value, st)
            t = s.target
            if isinstance(t, ast.Name):
                v = st.get(t.id, ('SAME', 'global:' + t.id) if t.id in self.globals_tracked else UNK)
                if v[0] in ('VIEW', 'SAME'):
                    self.emit('aug-name', t, s, v)
                # the name now refers to the (same, for arrays) object: keep value
                return st
            if isinstance(t, ast.Subscript):
                b = self.ev(t.value, st)
                if b[0] in ('VIEW', 'SAME', 'VARS', 'DIMS', 'ATTR'):
                    self.emit('aug-sub', t, s, b)
                return st
            if isinstance(t, ast.Attribute):
                b = self.ev(t.value, st)
                if b[0] in ('FILE', 'SAME', 'VIEW'):
                    self.emit('store-attr', t, s, b, extra=t.attr)
                return st
            return st
        if isinstance(s, ast.Delete):
            for t in s.targets:
                if isinstance(t, ast.Subscript):
                    b = self.ev(t.value, st)
                    if b[0] in ('VARS', 'DIMS', 'VIEW', 'SAME'):
                        self.emit('del-sub', t, s, b)
                elif isinstance(t, ast.Attribute):
                    b = self.ev(t.value, st)
                    if b[0] in ('FILE', 'SAME', 'VIEW'):
                        self.emit('del-attr', t, s, b, extra=t.attr)
                elif isinstance(t, ast.Name):
                    st = dict(st)
                    st.pop(t.id, None)
            return st
        if isinstance(s, ast.Expr):
            self.ev(s.value, st)
            return st
        if isinstance(s, ast.Return):
            if s.value is not None:
                v = self.ev(s.value, st)
                self.emit('return', s, s, v, value=v)
            return st
        if isinstance(s, (ast.Raise, ast.Assert)):
            for sub in ast.iter_child_nodes(s):
                if isinstance(sub, ast.expr):
                    self.scan_calls(sub, st)
            return st
        if isinstance(s, (ast.Import, ast.ImportFrom)):
            st = dict(st)
            for a in s.names:
                nm = (a.asname or a.name).split('.')[0]
                st[nm] = UNK
            return st
        if isinstance(s, (ast.FunctionDef, ast.ClassDef)):
            st = dict(st)
            st[s.name] = UNK
            return st
        return st

    def bind(self, target, it, st, node):
        """for-loop / with targets"""
        v = self.ev(it, st) if isinstance(it, ast.expr) else UNK
        call = it if isinstance(it, ast.Call) else None
        fname = call.func.id if call is not None and isinstance(call.func, ast.Name) else None
        if fname == 'enumerate' and call.args and isinstance(target, ast.Tuple) and len(target.elts) == 2:
            st = self.assign(target.elts[0], FRESH, st, node)
            return self.bind(target.elts[1], call.args[0], st, node)
        if fname == 'zip' and isinstance(target, ast.Tuple) and len(target.elts) == len(call.args):
            for t, a in zip(target.elts, call.args):
                st = self.bind(t, a, st, node)
            return st
        if fname in ('list', 'tuple', 'sorted', 'reversed') and call.args:
            return self.bind(target, call.args[0], st, node)
        if v[0] == 'FILES':
            return self.assign(target, ('FILE', v[1]), st, node)
        if v[0] == 'ITERITEMS' and isinstance(target, ast.Tuple) and len(target.elts) == 2:
            st = self.assign(target.elts[0], FRESH, st, node)
            return self.assign(target.elts[1], ('SAME', v[1]), st, node)
        if v[0] == 'ITERVALUES':
            return self.assign(target, ('SAME', v[1]), st, node)
        if v[0] in ('ITERKEYS', 'VARS', 'DIMS', 'FRESH'):
            return self.assign(target, FRESH if not isinstance(target, ast.Tuple) else UNK, st, node)
        return self.assign(target, UNK, st, node)

    def cond(self, test, st):
        """public-contract evaluation: an 'if copy:' on a boolean parameter named copy whose default
        is True follows the default branch only (aliasing on explicit copy=False is requested)"""
        neg = False
        t = test
        if isinstance(t, ast.UnaryOp) and isinstance(t.op, ast.Not):
            neg, t = True, t.operand
        if isinstance(t, ast.Name) and t.id == 'copy' and t.id in self.param_names:
            a = self.func.args
            pos = a.posonlyargs + a.args
            dflt = dict(zip([x.arg for x in pos[len(pos) - len(a.defaults):]], a.defaults))
            dflt.update(dict((x.arg, d) for x, d in zip(a.kwonlyargs, a.kw_defaults) if d is not None))
            d = dflt.get('copy')
            if isinstance(d, ast.Constant) and d.value in (True, False):
                val = (not d.value) if neg else d.value
                return (st, None) if val else (None, st)
        return st, st

    def run(self):
        self._cur = self.func
        w = Walker(self.transfer, vjoin, cond=self.cond, bind=self.bind)
        w.run(self.func.body, self.init)
        self.walker = w
        return self.events
