"""Baseline-relative generic rules, run for every property over the files its anchors name.

These are the slips that the seeded waves showed to recur at *new* sites (a dropped forwarded argument, a mutable default that is
read, a per-element decision taken once for the whole array, a bound method used as a truth value, a one-shot iterator consumed
twice).  Each rule is exact on what it reports; the instances present on the pinned tree were read one by one and are frozen below
with a reason, so that only a *new* instance is a violation (Engler et al.: the instances confirmed today are the reference for any
later change)."""
import ast
import json
import os

from .engine import AnalysisError, dotted, iter_stmts, norm, parent_chain
from .report import Finding, VERIF
from . import lints

# parameters that are accepted but never read on the pinned tree: (file, function) -> {param: reason}
DEAD_OK = {
    ('camxfiles/ipr/Memmap.py', 'ipr.__init__'): {'multi': 'legacy switch of the multi-file reader, documented as unused'},
    ('camxfiles/ipr/Read.py', 'ipr.__init__'): {'oldnames': 'legacy naming switch, no effect since the variable table is built lazily'},
    ('camxfiles/irr/Memmap.py', 'irr.__init__'): {'multi': 'legacy switch, as in ipr'},
    ('camxfiles/one3d/Memmap.py', 'one3d.__decorator'): {'name': 'the decorator takes the name from the class attribute var_name'},
    ('camxfiles/pig/greasd/Memmap.py', 'greasd.__init__'): {'mode': 'read-only format; the mode is fixed'},
    ('cmaqfiles/_ioapi.py', 'ioapi_base.subsetVariables'): {'inplace': 'the IOAPI wrapper always returns a new file (signature kept from the base method)',
                                                           'keepcoords': 'coordinates of an IOAPI file are not variables of VAR-LIST; signature kept from the base method'},
    ('conventions/ioapi/_ioapi.py', 'add_cf_from_ioapi'): {'coordkeys': 'kept for call compatibility; the coordinate keys are fixed by the convention'},
    ('coordutil.py', 'getinterpweights'): {'kind': 'only linear weights are implemented', 'fill_value': 'handled by the extrapolate switch'},
    ('coordutil.py', 'getlonlatcoordstr'): {'makemesh': 'legacy switch'},
    ('coordutil.py', 'getpresmid'): {'pref': 'passed through by callers for symmetry with getpresbnds', 'ptop': 'same'},
    ('coordutil.py', 'getproj4_from_cf_var'): {'withgrid': 'legacy switch'},
    ('core/_dimensions.py', 'PseudoNetCDFDimension.__init__'): {'group': 'netCDF4 signature compatibility; in-memory dimensions have no group'},
    ('core/_files.py', 'PseudoNetCDFFile.subsetVariables'): {'keepcoords': 'documented but not implemented on the pinned tree'},
    ('core/_functions.py', 'manglenames'): {'translator': 'legacy argument'},
    ('core/_functions.py', 'pncbo'): {'verbose': 'diagnostic only'},
    ('core/_functions.py', 'pncexpr'): {'verbose': 'diagnostic only'},
    ('geoschemfiles/_bpch.py', 'bpch_base.interpSigma'): {'approach': 'only one approach is implemented'},
    ('noaafiles/_arl.py', 'pack2d'): {'verbose': 'diagnostic only'},
}

# functions that may change module-level state on the pinned tree
MODSTATE_OK = {
    ('_getreader.py', 'registerreader'): 'the one registration point of the reader registry (C15 R-REGMUT checks every alias)',
    ('_getwriter.py', 'registerwriter'): 'the one registration point of the writer registry',
}
MUTATORS = ('append', 'insert', 'update', 'pop', 'extend', 'clear', 'setdefault', 'remove', 'popitem', 'add', 'discard', 'sort', 'reverse')

ITER_FACTORIES = ('map', 'filter', 'zip', 'iter', 'reversed', 'enumerate')
_props_cache = {}


def anchor_files(prop, src):
    if not _props_cache:
        for l in open(os.path.join(VERIF, 'properties.jsonl')):
            d = json.loads(l)
            _props_cache[d['id']] = [f.replace('src/PseudoNetCDF/', '') for f in d['anchors']['files']]
    files = list(_props_cache.get(prop, []))
    if prop in ('C08', 'C09', 'C13'):
        files += [r for r in src.relpaths() if r.startswith('camxfiles/') and r.split('/')[-1] in ('Write.py', 'Read.py', 'Memmap.py')]
    if prop in ('C08', 'C13'):
        files += ['ArrayTransforms.py', 'camxfiles/timetuple.py']
    if prop == 'C18':
        files += ['geoschemfiles/_bpchmaster.py']
    if prop in ('C01', 'C02', 'C05'):
        files += ['core/_variables.py', 'core/_dimensions.py']
    if prop == 'C15':
        # every module that defines a sniffer takes part in auto-detection
        for r in src.relpaths():
            try:
                if 'def isMine' in src.text(r):
                    files.append(r)
            except Exception:
                pass
    if prop == 'C13':
        files += ['camxfiles/FortranFileUtil.py']
    out = []
    for f in files:
        if f.endswith('.py') and f not in out:
            out.append(f)
    return out


def _skip(q):
    last = q.split('.')[-1]
    return '<locals>' in q or 'Test' in q or last.startswith('test') or last in ('runTest', 'setUp', 'tearDown')


def dead_params(fn):
    ps = [a.arg for a in fn.args.args if a.arg not in ('self', 'cls')] + [a.arg for a in fn.args.kwonlyargs]
    body = [s for s in fn.body if not (isinstance(s, ast.Expr) and isinstance(s.value, ast.Constant))]
    if len(body) <= 1 and (not body or isinstance(body[0], (ast.Pass, ast.Raise, ast.Return))):
        return [], len(ps)       # stubs and one-line delegations declare an interface
    loads = set(n.id for n in ast.walk(fn) if isinstance(n, ast.Name) and isinstance(n.ctx, ast.Load))
    return [p for p in ps if p not in loads], len(ps)


def uncalled_in_test(fn, methods):
    out = []
    for n in ast.walk(fn):
        tests = []
        if isinstance(n, (ast.If, ast.While, ast.IfExp)):
            tests.append(n.test)
        if isinstance(n, ast.UnaryOp) and isinstance(n.op, ast.Not):
            tests.append(n.operand)
        if isinstance(n, ast.BoolOp):
            tests += n.values
        if isinstance(n, ast.Call) and isinstance(n.func, ast.Attribute) and n.func.attr == 'setunlimited':
            tests += n.args
        for t in tests:
            if isinstance(t, ast.Attribute) and t.attr in methods:
                out.append(t)
    return out


def oneshot_reuse(fn):
    """a local bound to a generator expression / map / filter / zip / iter that is consumed more than once, or inside a loop body"""
    out = []
    gens = {}
    for st in iter_stmts(fn.body):
        if isinstance(st, ast.Assign) and len(st.targets) == 1 and isinstance(st.targets[0], ast.Name):
            v = st.value
            if isinstance(v, ast.GeneratorExp) or (isinstance(v, ast.Call) and dotted(v.func) in ITER_FACTORIES):
                gens[st.targets[0].id] = st
            elif st.targets[0].id in gens:
                gens.pop(st.targets[0].id)
    for g, st in gens.items():
        uses = [n for n in ast.walk(fn) if isinstance(n, ast.Name) and n.id == g and isinstance(n.ctx, ast.Load) and n.lineno >= st.lineno]
        in_body = []
        for u in uses:
            for p in parent_chain(u):
                if isinstance(p, (ast.For, ast.While)) and p.lineno > st.lineno and not any(x is u for x in ast.walk(p.iter if isinstance(p, ast.For) else p.test)):
                    in_body.append(u)
                    break
                if isinstance(p, (ast.ListComp, ast.GeneratorExp, ast.SetComp, ast.DictComp)) and not any(x is u for x in ast.walk(p.generators[0].iter)):
                    in_body.append(u)
                    break
        if len(uses) > 1 or in_body:
            out.append((g, st, (in_body or uses[1:])[0]))
    return out


def module_state_writes(m, fn):
    """statements of fn that assign a name declared global or mutate a module-level container"""
    out = []
    g = set()
    for st in iter_stmts(fn.body):
        if isinstance(st, ast.Global):
            g |= set(st.names)
    params = set(a.arg for a in fn.args.args + fn.args.kwonlyargs)
    local = set(n.id for st in iter_stmts(fn.body) if isinstance(st, (ast.Assign, ast.For, ast.With)) for n in ast.walk(st)
                if isinstance(n, ast.Name) and isinstance(n.ctx, ast.Store)) - g
    def _container(v):
        return isinstance(v, (ast.List, ast.Dict, ast.Set, ast.ListComp, ast.DictComp)) or \
            (isinstance(v, ast.Call) and dotted(v.func) in ('list', 'dict', 'set', 'OrderedDict', 'defaultdict', 'collections.OrderedDict')) or \
            (isinstance(v, ast.BinOp) and isinstance(v.op, ast.Add) and (_container(v.left) or _container(v.right)))
    modlevel = set(k for k, v in m.assigns.items() if _container(v))
    shared = (modlevel | g) - params - local
    for st in iter_stmts(fn.body):
        if isinstance(st, (ast.Assign, ast.AugAssign)):
            for t in (st.targets if isinstance(st, ast.Assign) else [st.target]):
                if isinstance(t, ast.Name) and t.id in g:
                    out.append((st, 'assigns module global %s' % t.id))
                b = t
                while isinstance(b, ast.Subscript):
                    b = b.value
                if b is not t and isinstance(b, ast.Name) and b.id in shared:
                    out.append((st, 'stores into module-level container %s' % b.id))
        for c in ast.walk(st) if isinstance(st, ast.Expr) else []:
            if isinstance(c, ast.Call) and isinstance(c.func, ast.Attribute) and isinstance(c.func.value, ast.Name) and c.func.value.id in shared and c.func.attr in MUTATORS:
                out.append((st, 'mutates module-level container %s (%s)' % (c.func.value.id, c.func.attr)))
    # through an alias: `x = G` / `self.a = G` (the container itself, no copy) and then a mutating call / subscript store / del on x
    alias = {}
    for st in iter_stmts(fn.body):
        if isinstance(st, ast.Assign) and len(st.targets) == 1 and isinstance(st.value, ast.Name) and st.value.id in shared and isinstance(st.targets[0], (ast.Name, ast.Attribute)):
            alias[norm(st.targets[0])] = st.value.id
        elif isinstance(st, ast.Assign) and len(st.targets) == 1 and norm(st.targets[0]) in alias:
            del alias[norm(st.targets[0])]
        if not alias:
            continue
        for c in ast.walk(st) if isinstance(st, (ast.Expr, ast.If, ast.Assign, ast.AugAssign, ast.Delete)) else []:
            if isinstance(c, ast.Call) and isinstance(c.func, ast.Attribute) and c.func.attr in MUTATORS and norm(c.func.value) in alias and getattr(c, 'lineno', 0) >= st.lineno:
                out.append((st if not isinstance(st, ast.If) else c, 'mutates module-level container %s through its alias %s (%s)' % (alias[norm(c.func.value)], norm(c.func.value), c.func.attr)))
        if isinstance(st, ast.Delete):
            for t in st.targets:
                if isinstance(t, ast.Subscript) and norm(t.value) in alias:
                    out.append((st, 'deletes from module-level container %s through its alias %s' % (alias[norm(t.value)], norm(t.value))))
    return out


SIB_FAMS = [('x', 'y'), ('X', 'Y'), ('col', 'row'), ('COL', 'ROW'), ('cols', 'rows'), ('COLS', 'ROWS'), ('ncol', 'nrow'), ('ncols', 'nrows'), ('NCOLS', 'NROWS'), ('lon', 'lat'),
            ('llod', 'ulod'), ('LLOD', 'ULOD'), ('tau0', 'tau1'), ('start', 'end'), ('left', 'right'), ('min', 'max'), ('lower', 'upper'), ('west', 'east'), ('south', 'north'),
            ('WEST', 'EAST'), ('SOUTH', 'NORTH'), ('B', 'E'), ('ib', 'ie'), ('b', 'e')]
SIB_PREFIXED = {'X': ['ORIG', 'CELL', 'SIZE', 'CENT'], 'B': ['DATE', 'TIME'], 'b': ['date', 'time'], 'x': ['orig', 'cell', 'size', 'min', 'max', 'off', 'key']}


def _toks(text):
    import re
    text = text.replace('tau0', '\x00').replace('tau1', '\x01')
    out = re.findall(r"\x00|\x01|[A-Z]+(?![a-z])|[A-Z]?[a-z]+|\d+|[^A-Za-z\d\x00\x01]+", text)
    return [{'\x00': 'tau0', '\x01': 'tau1'}.get(t, t) for t in out]


def _swap(text, fam):
    a, b = fam
    out = []
    for t in _toks(text):
        r = t
        if t == a:
            r = b
        elif t == b:
            r = a
        elif len(a) == 1:
            for p_, q_ in ((a, b), (b, a)):
                if t.startswith(p_) and t[1:] in SIB_PREFIXED.get(a, []):
                    r = q_ + t[1:]
        out.append(r)
    return ''.join(out)


def _shape(n):
    import re
    d = ast.dump(n)
    d = re.sub(r"id='[^']*'", "id=_", d)
    d = re.sub(r"attr='[^']*'", "attr=_", d)
    return re.sub(r"value=(?:'[^']*'|\"[^\"]*\"|-?[\d.]+)", "value=_", d)


def _leaves(n):
    out = []
    for x in ast.walk(n):
        if isinstance(x, ast.Name):
            out.append(x.id)
        elif isinstance(x, ast.Attribute):
            out.append(x.attr)
        elif isinstance(x, ast.Constant):
            out.append(x.value if isinstance(x.value, str) else repr(x.value))
    return out


def sibling_slips(fn):
    """two neighbouring assignments whose targets differ by one role swap (x/y, COL/ROW, tau0/tau1, llod/ulod, B/E...) and whose values have the
    same shape: a leaf of the second value that still carries the *first* role where the first value has it too was not adapted (copy-paste)."""
    res = []
    blocks = [fn.body] + [getattr(s_, f_) for s_ in ast.walk(fn) for f_ in ('body', 'orelse', 'finalbody')
                          if isinstance(getattr(s_, f_, None), list) and s_ is not fn and not isinstance(s_, (ast.FunctionDef, ast.ClassDef))]
    for blk in blocks:
        pairs = []
        for st in blk:
            if isinstance(st, ast.Assign) and len(st.targets) == 1:
                t = st.targets[0]
                if isinstance(t, ast.Tuple) and isinstance(st.value, ast.Tuple) and len(t.elts) == len(st.value.elts):
                    pairs += [(a, b, st) for a, b in zip(t.elts, st.value.elts)]
                else:
                    pairs.append((t, st.value, st))
            elif isinstance(st, ast.AugAssign):
                pairs.append((st.target, st.value, st))
        for i in range(len(pairs)):
            for j in range(i + 1, min(i + 3, len(pairs))):
                t1, v1, s1 = pairs[i]
                t2, v2, s2 = pairs[j]
                n1, n2 = norm(t1), norm(t2)
                if n1 == n2:
                    continue
                for fam in SIB_FAMS:
                    if _swap(n1, fam) == n2:
                        if _shape(v1) == _shape(v2):
                            bad = [(a, b) for a, b in zip(_leaves(v1), _leaves(v2)) if _swap(a, fam) != a and a == b]
                            if bad:
                                res.append((s1, s2, fam, bad))
                        break
    return res


def class_state_writes(m):
    """class attributes bound to a mutable literal that a method changes through `self` without first re-binding them on the instance:
    every instance of the class (every open file) shares the one object.  -> [(class, method, attr, node)]"""
    out = []
    for node in ast.walk(m.tree):
        if not isinstance(node, ast.ClassDef):
            continue
        mut = {}
        for st in node.body:
            if isinstance(st, ast.Assign) and len(st.targets) == 1 and isinstance(st.targets[0], ast.Name):
                v = st.value
                if isinstance(v, (ast.Dict, ast.List, ast.Set)) or (isinstance(v, ast.Call) and dotted(v.func) in ('dict', 'list', 'set', 'OrderedDict', 'collections.OrderedDict')):
                    mut[st.targets[0].id] = st
        if not mut:
            continue
        for fn in [s_ for s_ in node.body if isinstance(s_, ast.FunctionDef)]:
            if not fn.args.args:
                continue
            selfn = fn.args.args[0].arg
            rebound = set()
            for st in iter_stmts(fn.body):
                if isinstance(st, ast.Assign):
                    for t in st.targets:
                        if isinstance(t, ast.Attribute) and isinstance(t.value, ast.Name) and t.value.id == selfn and t.attr in mut:
                            rebound.add(t.attr)
            # local names that are plain aliases of such an attribute (x = self.attr)
            alias = {}
            for st in iter_stmts(fn.body):
                if isinstance(st, ast.Assign) and len(st.targets) == 1 and isinstance(st.targets[0], ast.Name) and isinstance(st.value, ast.Attribute) \
                        and isinstance(st.value.value, ast.Name) and st.value.value.id in (selfn, node.name) and st.value.attr in mut and st.value.attr not in rebound:
                    alias[st.targets[0].id] = st.value.attr
            for n in ast.walk(fn):
                tgt = None
                if isinstance(n, ast.Subscript) and isinstance(n.ctx, (ast.Store, ast.Del)):
                    tgt = n.value
                elif isinstance(n, ast.Call) and isinstance(n.func, ast.Attribute) and n.func.attr in MUTATORS:
                    tgt = n.func.value
                elif isinstance(n, ast.AugAssign):
                    tgt = n.target
                if isinstance(tgt, ast.Attribute) and isinstance(tgt.value, ast.Name) and tgt.value.id in (selfn, node.name) and tgt.attr in mut and tgt.attr not in rebound:
                    out.append((node.name, fn.name, tgt.attr, n))
                elif isinstance(tgt, ast.Name) and tgt.id in alias:
                    out.append((node.name, fn.name, alias[tgt.id], n))
    return out


def numeric_param(fn, p):
    """is parameter p used as a number somewhere in fn (arithmetic, ordering comparison, index, numpy / timetuple call argument)?"""
    for n in ast.walk(fn):
        if isinstance(n, ast.BinOp) and not isinstance(n.op, ast.Mod) and any(isinstance(x, ast.Name) and x.id == p for x in (n.left, n.right)):
            return True
        if isinstance(n, ast.Compare) and any(isinstance(o, (ast.Lt, ast.LtE, ast.Gt, ast.GtE)) for o in n.ops) and any(isinstance(x, ast.Name) and x.id == p for x in [n.left] + n.comparators):
            return True
        if isinstance(n, ast.Call) and ((dotted(n.func) or '').startswith('np.') or dotted(n.func) in ('timediff', 'timeadd', 'timerange', 'range', 'slice', 'int', 'float', 'abs')):
            for a in n.args:
                if any(isinstance(x, ast.Name) and x.id == p for x in ast.walk(a)):
                    return True
        if isinstance(n, ast.Subscript) and any(isinstance(x, ast.Name) and x.id == p for x in ast.walk(n.slice)):
            return True
    return False


def truthy_numeric_defaults(fn):
    """`p = p or default` / `if not p: p = default` on a None-default parameter that is used as a number: 0 is a value, not absent"""
    a = fn.args
    pos = a.posonlyargs + a.args
    nd = [p_.arg for p_, d in list(zip(pos[len(pos) - len(a.defaults):], a.defaults)) + [(p_, d) for p_, d in zip(a.kwonlyargs, a.kw_defaults) if d is not None]
          if isinstance(d, ast.Constant) and d.value is None]
    if not nd:
        return []
    out = [(st, [n_ for n_ in nd if n_ in norm(st)][0]) for st in lints.truthy_optional_guards(fn, tuple(nd))
           if any(numeric_param(fn, n_) and 'date' not in n_.lower() for n_ in nd if n_ in [x.id for x in ast.walk(st) if isinstance(x, ast.Name)])]
    # `p = p or <tuple / list / number>`: the default shows the kind of value p holds, and that kind has a falsy member (the empty
    # tuple of a scalar variable's dimensions, 0) which is a request, not an absence
    for st in iter_stmts(fn.body):
        if isinstance(st, ast.Assign) and len(st.targets) == 1 and isinstance(st.targets[0], ast.Name) and st.targets[0].id in nd and isinstance(st.value, ast.BoolOp) \
                and isinstance(st.value.op, ast.Or) and isinstance(st.value.values[0], ast.Name) and st.value.values[0].id == st.targets[0].id:
            d = st.value.values[-1]
            if (isinstance(d, (ast.Tuple, ast.List)) and d.elts) or (isinstance(d, ast.Constant) and isinstance(d.value, (int, float)) and not isinstance(d.value, bool)):
                if not any(s0 is st for s0, _ in out):
                    out.append((st, st.targets[0].id))
    return out


def falsy_fill_tests(fn):
    """a fill / missing value used as a truth value (if x / x or y / not x / x and y): 0 is a legitimate fill value and would count as
    'no fill value'.  -> [(node, name)]"""
    def isfill(n):
        return isinstance(n, ast.Name) and n.id.lower().replace('_', '') in ('fillvalue', 'missingvalue', 'fillval', 'missval')
    out = []
    for n in ast.walk(fn):
        tests = []
        if isinstance(n, (ast.If, ast.While, ast.IfExp)):
            tests.append(n.test)
        if isinstance(n, ast.BoolOp):
            tests += n.values
        if isinstance(n, ast.UnaryOp) and isinstance(n.op, ast.Not):
            tests.append(n.operand)
        for t in tests:
            if isfill(t):
                out.append((n, t.id))
    return out


def broken_swaps(fn):
    """X[i] = X[j] immediately followed by X[j] = X[i] on the same container: the second statement reads the value the first just wrote"""
    out = []
    for blk in [fn.body] + [getattr(s_, f_) for s_ in ast.walk(fn) for f_ in ('body', 'orelse') if isinstance(getattr(s_, f_, None), list) and s_ is not fn]:
        for a, b in zip(blk, blk[1:]):
            if isinstance(a, ast.Assign) and isinstance(b, ast.Assign) and len(a.targets) == 1 and len(b.targets) == 1 \
                    and isinstance(a.targets[0], ast.Subscript) and isinstance(b.targets[0], ast.Subscript) and isinstance(a.value, ast.Subscript) and isinstance(b.value, ast.Subscript):
                if norm(a.targets[0]) == norm(b.value) and norm(a.value) == norm(b.targets[0]) and norm(a.targets[0]) != norm(a.value):
                    out.append((a, b))
    return out


def reduced_default_dtype(fn):
    """[(statement, what)]: `dtype = <x>.dtype.char|kind|type` (or <x>.typecode()) executed when the parameter dtype is None"""
    params = [a.arg for a in fn.args.args + fn.args.kwonlyargs]
    if 'dtype' not in params:
        return []
    out = []
    for st in iter_stmts(fn.body):
        if not (isinstance(st, ast.If) and isinstance(st.test, ast.Compare) and norm(st.test) == 'dtype is None'):
            continue
        for s2 in st.body:
            if isinstance(s2, ast.Assign) and len(s2.targets) == 1 and isinstance(s2.targets[0], ast.Name) and s2.targets[0].id == 'dtype':
                v = s2.value
                if isinstance(v, ast.Attribute) and v.attr in ('char', 'kind', 'type') and isinstance(v.value, ast.Attribute) and v.value.attr == 'dtype':
                    out.append((s2, 'the one-letter code / scalar type (%s)' % norm(v)))
                elif isinstance(v, ast.Call) and isinstance(v.func, ast.Attribute) and v.func.attr == 'typecode':
                    out.append((s2, 'the one-letter code (%s)' % norm(v)))
    return out


def kind_as_typecode(fn):
    """`typecode / dtype / type = <...>.kind`: the kind letter of a dtype ('f', 'i', 'u') read as a type code names the 4-byte type of
    that kind, whatever the width of the data was.  -> [(statement, text)]"""
    out = []
    dts = set()
    for st in iter_stmts(fn.body):
        if isinstance(st, ast.Assign) and len(st.targets) == 1 and isinstance(st.targets[0], ast.Name) and isinstance(st.value, ast.Attribute) and st.value.attr == 'dtype':
            dts.add(st.targets[0].id)
    for st in iter_stmts(fn.body):
        if isinstance(st, ast.Assign) and len(st.targets) == 1 and isinstance(st.targets[0], ast.Name) and st.targets[0].id in ('typecode', 'dtype', 'type', 'vtype', 'tc'):
            for x in ast.walk(st.value):
                if isinstance(x, ast.Attribute) and x.attr == 'kind' and isinstance(x.ctx, ast.Load) and \
                        ((isinstance(x.value, ast.Attribute) and x.value.attr == 'dtype') or (isinstance(x.value, ast.Name) and x.value.id in dts)):
                    # a use inside a comparison (dt.kind == 'S') is a test, not the value
                    par = getattr(x, '_parent', None)
                    if isinstance(par, ast.Compare):
                        continue
                    out.append((st, norm(x)))
    return out


def pure_method_names(src):
    """names that are methods of some class of the package and are nowhere a property, a class-level value or an assigned attribute"""
    methods, other = set(), set()
    for rp in src.relpaths():
        try:
            m = src.mod(rp)
        except AnalysisError:
            continue
        except SyntaxError:
            continue
        for node in ast.walk(m.tree):
            if isinstance(node, ast.ClassDef):
                for st in node.body:
                    if isinstance(st, ast.FunctionDef):
                        decos = [dotted(d) or '' for d in st.decorator_list]
                        if 'property' in decos or any(d.endswith('.setter') for d in decos):
                            other.add(st.name)
                        else:
                            methods.add(st.name)
                    if isinstance(st, ast.Assign):
                        other |= set(t.id for t in st.targets if isinstance(t, ast.Name))
            if isinstance(node, (ast.Assign, ast.AugAssign, ast.AnnAssign)):
                for t in (node.targets if isinstance(node, ast.Assign) else [node.target]):
                    if isinstance(t, ast.Attribute):
                        other.add(t.attr)
    return methods - other


def run(ctx):
    src = ctx.src
    files = anchor_files(ctx.prop, src)
    for r, d in (('R-PARAMUSED', 'anchored functions read every parameter they accept (instances of the pinned tree frozen with a reason)'),
                 ('R-NOSTATE', 'no anchored function fills and reads a mutable default argument'),
                 ('R-ELEMENTWISE', 'no per-element choice is taken once for a whole array from .any()/.all()'),
                 ('R-CALLED', 'no bound method is used as a truth value / flag without being called'),
                 ('R-ONESHOT', 'no one-shot iterator (generator, map, filter, zip) is consumed twice or inside a loop body'),
                 ('R-MODSTATE', 'no anchored function assigns a module global or mutates a module-level container (registration points frozen)'),
                 ('R-CLASSSTATE', 'no method changes a mutable class-level attribute through self (shared by all instances) without re-binding it on the instance'),
                 ('R-NONEGUARD', 'an optional parameter that is used as a number is tested with `is None`, never by truthiness (0 is a value)'),
                 ('R-SWAP', 'no two-statement swap through the container itself (x[i] = x[j]; x[j] = x[i])'),
                 ('R-FALSYDEFAULT', 'an attribute / keyword looked up with getattr or .get is not defaulted with `or`: a value that is present but falsy (empty units, 0, 0.0) is not absent'),
                 ('R-ATTRALIAS', 'a local bound to an array attribute of the receiver (x = self.A) is not updated with an in-place operator: that changes the receiver'),
                 ('R-STALEVAR', 'no loop body reads the loop variable of an earlier, finished loop (bound nowhere else): it would hold that loop\'s last value for every iteration'),
                 ('R-GUARDOBJ', 'a `K not in A.dimensions / A.variables` guard adds K to A itself, not to another file'),
                 ('R-DTYPEFULL', 'the type a copy gets when none is requested is the complete dtype of the source, not its one-letter code'),
                 ('R-TDSECONDS', 'an elapsed time is taken from total_seconds(), never from (a - b).seconds (which drops whole days)'),
                 ('R-SIBLING', 'neighbouring statements that differ by one role swap (x/y, COL/ROW, tau0/tau1, llod/ulod, B/E) are adapted in every leaf')):
        if r not in ctx.rules:
            ctx.rule(r, d)
    methods = pure_method_names(src) if ctx.tier == 'thorough' else set(['isunlimited', 'isopen', 'ncattrs', 'getTimes', 'getCoords', 'isMine', 'keys', 'items', 'values', 'any', 'all'])
    nfun = npar = 0
    for rp in files:
        try:
            m = src.mod(rp)
        except AnalysisError:
            raise
        for cname, mname, attr, node in class_state_writes(m):
            from . import api
            ctx.violation(Finding('R-CLASSSTATE', rp, '%s.%s' % (cname, mname), api.stmt_of(node), '%s.%s is a mutable object created once in the class body and %s changes it through self: all instances (all open files, '
                                  'all conversions in the process) share it, so what one leaves there shows up in the next' % (cname, attr, mname)), oid='generic:%s.%s:%s' % (cname, mname, attr))
        for q, fn in sorted(m.functions.items()):
            if _skip(q):
                continue
            nfun += 1
            where = 'src/PseudoNetCDF/%s %s' % (rp, q)
            dead, np_ = dead_params(fn)
            npar += np_
            allowed = DEAD_OK.get((rp, q), {})
            new = [p for p in dead if p not in allowed]
            if new:
                body = [s for s in fn.body if not (isinstance(s, ast.Expr) and isinstance(s.value, ast.Constant))]
                ctx.violation(Finding('R-PARAMUSED', rp, q, body[-1] if body else fn, 'parameter %s of %s is accepted but never read: what the caller selected or asked for is silently replaced by a default '
                                      '(not among the %d unused legacy options frozen for the pinned tree)' % (new, q, sum(len(v) for v in DEAD_OK.values()))), oid='generic:%s:%s' % (q, ','.join(new)))
            for pn, d_, hit in lints.mutated_mutable_defaults(fn):
                ctx.violation(Finding('R-NOSTATE', rp, q, hit, 'parameter %s defaults to a mutable %s that this function fills and reads: what one call leaves there changes the next call' % (pn, norm(d_))),
                              oid='generic:%s:%s' % (q, pn))
            for st, x, red in lints.collapsed_elementwise_choice(fn):
                ctx.violation(Finding('R-ELEMENTWISE', rp, q, st, 'which update applies to %s is decided once for the whole array by %s: arrays whose elements fall on both sides get one treatment' % (x, norm(st.test)[:50])),
                              oid='generic:%s:%s' % (q, norm(st.test)[:40]))
            for t in uncalled_in_test(fn, methods):
                from . import api
                ctx.violation(Finding('R-CALLED', rp, q, api.stmt_of(t), '%s is a bound method used as a value (always true): the call parentheses are missing' % norm(t)), oid='generic:%s:%s' % (q, norm(t)))
            if (rp, q) not in MODSTATE_OK:
                for st, why in module_state_writes(m, fn):
                    ctx.violation(Finding('R-MODSTATE', rp, q, st, '%s %s: the result of later calls depends on earlier ones (history), which none of the anchored functions did on the pinned tree' % (q, why)),
                                  oid='generic:%s:%s' % (q, norm(st)[:40]))
            for s1, s2, fam, bad in sibling_slips(fn):
                ctx.violation(Finding('R-SIBLING', rp, q, s2, 'this statement mirrors `%s` with %s swapped for %s, but %r was left as it is: the %s value is computed from the %s input' % (
                    norm(s1)[:50], fam[0], fam[1], bad[0][1], fam[1], fam[0])), oid='generic:%s:%s' % (q, norm(s2)[:40]))
            for n_, nm_ in falsy_fill_tests(fn):
                from . import api
                ctx.violation(Finding('R-NONEGUARD', rp, q, api.stmt_of(n_), 'the fill value %s is used as a truth value (%s): a fill value of 0 counts as "none given", so the variable is created unmasked '
                                      'and the data under the mask are exposed' % (nm_, norm(n_.test if hasattr(n_, 'test') else n_)[:50])), oid='generic:%s:fill:%s' % (q, nm_))
            for n_ in ast.walk(fn):
                if isinstance(n_, ast.Attribute) and n_.attr == 'seconds' and isinstance(n_.value, ast.BinOp) and isinstance(n_.value.op, ast.Sub) and isinstance(n_.ctx, ast.Load):
                    from . import api
                    ctx.violation(Finding('R-TDSECONDS', rp, q, api.stmt_of(n_), '`%s`: timedelta.seconds is the part below one day; an elapsed time of more than 24 h wraps around (use total_seconds())' % norm(n_)[:60]),
                                  oid='generic:%s:tdseconds' % q)
            for st, pn in truthy_numeric_defaults(fn):
                ctx.violation(Finding('R-NONEGUARD', rp, q, st, 'the optional parameter %s is defaulted by truthiness (%s) although a falsy value is a legitimate request: 0 (midnight, first layer), the empty dimension tuple '
                                      'of a scalar variable ... is silently replaced by the default' % (pn, norm(st)[:50])), oid='generic:%s:%s' % (q, pn))
            for n_ in ast.walk(fn):
                if isinstance(n_, ast.BoolOp) and isinstance(n_.op, ast.Or) and isinstance(n_.values[0], ast.Call) and \
                        (dotted(n_.values[0].func) == 'getattr' or (isinstance(n_.values[0].func, ast.Attribute) and n_.values[0].func.attr == 'get')) \
                        and isinstance(n_.values[-1], ast.Constant):
                    from . import api
                    ctx.violation(Finding('R-FALSYDEFAULT', rp, q, api.stmt_of(n_), '`%s`: a value that is present but falsy (an empty string, 0) is replaced by the default as if it were absent' % norm(n_)[:70]),
                                  oid='generic:%s:falsy:%s' % (q, norm(n_)[:40]))
            for st_, nm_, at_ in lints.attr_alias_inplace(fn):
                ctx.violation(Finding('R-ATTRALIAS', rp, q, st_, '%s is the object %s refers to (bound without a copy) and is updated in place here: the attribute of the receiver changes with it, '
                                      'so a second call starts from the already converted values' % (nm_, at_)), oid='generic:%s:attralias:%s' % (q, nm_))
            for nm_, lp_, rd_ in lints.stale_loop_variables(fn):
                from . import api
                ctx.violation(Finding('R-STALEVAR', rp, q, api.stmt_of(rd_), '%s is the loop variable of `for %s in %s` above and is bound nowhere else; this later loop reads it in its body, where it keeps the last value '
                                      'of the finished loop for every iteration' % (nm_, norm(lp_.target), norm(lp_.iter)[:40])), oid='generic:%s:stale:%s' % (q, nm_))
            for st_, a_, b_ in lints.guard_object_mismatch(fn):
                ctx.violation(Finding('R-GUARDOBJ', rp, q, st_, 'the guard asks %s whether the name is missing but the name is then added to %s: when %s already has it nothing is created in %s' % (a_, b_, a_, b_)),
                              oid='generic:%s:guard:%s' % (q, norm(st_.test)[:40]))
            for st_, red_ in reduced_default_dtype(fn):
                ctx.violation(Finding('R-DTYPEFULL', rp, q, st_, 'the type used when no dtype is requested is reduced to %s: the item width of a fixed-width text type (S8, U5) is not part of it, so the copy '
                                      'holds only the first character of every element' % red_), oid='generic:%s:dtype' % q)
            for st_, txt_ in kind_as_typecode(fn):
                ctx.violation(Finding('R-DTYPEFULL', rp, q, st_, 'the type code is taken from the kind of the dtype (%s): the kind letter names the 4-byte type of that kind, so float64 is declared as '
                                      'float32 and int8 / int16 / int64 as int32, and the data are cast on the way' % txt_), oid='generic:%s:kind' % q)
            for a_, b_ in broken_swaps(fn):
                ctx.violation(Finding('R-SWAP', rp, q, b_, '`%s` follows `%s`: it reads the element the first statement has just overwritten, so both positions end up with the same value' % (norm(b_)[:40], norm(a_)[:40])),
                              oid='generic:%s:%s' % (q, norm(b_)[:40]))
            for g, st, use in oneshot_reuse(fn):
                from . import api
                ctx.violation(Finding('R-ONESHOT', rp, q, api.stmt_of(use), '%s is a one-shot iterator (%s) and is consumed again here: the second pass sees nothing' % (g, norm(st.value)[:40])),
                              oid='generic:%s:%s' % (q, g))
    ok_note = '%d functions, %d parameters in %d anchored files' % (nfun, npar, len(files))
    for r in ('R-PARAMUSED', 'R-NOSTATE', 'R-ELEMENTWISE', 'R-CALLED', 'R-ONESHOT', 'R-MODSTATE', 'R-SIBLING', 'R-CLASSSTATE', 'R-NONEGUARD', 'R-SWAP', 'R-STALEVAR', 'R-GUARDOBJ', 'R-FALSYDEFAULT', 'R-ATTRALIAS', 'R-DTYPEFULL', 'R-TDSECONDS'):
        if not any(o['rule'] == r and o['status'] == 'violated' and str(o.get('id', '')).startswith('generic:') for o in ctx.obligations):
            ctx.ok(r, 'generic:%s' % r, 'anchored files of %s' % ctx.prop, ok_note)
    ctx.count('functions under the generic rules', nfun)
    if nfun < 3:
        raise AnalysisError('generic rules: only %d functions found in the anchored files of %s' % (nfun, ctx.prop))
