"""R-API: every numpy name a function uses exists in the *installed* numpy, and no
removed ndarray method is called.  numpy itself is inspected (hasattr); the
repository is never imported."""
import ast

from .engine import dotted, walk_expr

# frozen: ndarray methods removed in numpy 2.x (reason: NumPy 2.0 release notes, expired deprecations)
REMOVED_NDARRAY_METHODS = ('tostring', 'itemset', 'ptp', 'newbyteorder')
# receivers on which 'newbyteorder' is still valid (numpy.dtype keeps the method)
DTYPE_CTORS = ('dtype', 'np.dtype', 'numpy.dtype')


def _np():
    import numpy
    return numpy


def missing_numpy_names(mod, node):
    """-> list of (ast node, dotted name) used under *node* that do not resolve in numpy"""
    np = _np()
    aliases = mod.numpy_aliases() | set(['np', 'numpy']) & set(mod.imports) | (set(['np']) if 'np' in mod.imports else set())
    # function-local 'import numpy as np'
    for n in ast.walk(node):
        if isinstance(n, ast.Import):
            for a in n.names:
                if a.name == 'numpy':
                    aliases.add(a.asname or 'numpy')
    out = []
    seen = set()
    for n in walk_expr(node):
        if isinstance(n, ast.Attribute):
            d = dotted(n)
            if d is None:
                continue
            parts = d.split('.')
            if parts[0] not in aliases or len(parts) < 2:
                continue
            # only judge the maximal chain once
            par = getattr(n, '_parent', None)
            if isinstance(par, ast.Attribute) and par.value is n:
                continue
            obj = np
            ok = True
            for i, p in enumerate(parts[1:]):
                if not hasattr(obj, p):
                    # attribute of a numpy *object* (np.ma.masked.x, np.pi.real...) - stop judging once we left modules
                    import types
                    if isinstance(obj, types.ModuleType):
                        ok = False
                    break
                obj = getattr(obj, p)
            if not ok and id(n) not in seen:
                seen.add(id(n))
                out.append((n, d))
    # from numpy import x  (module level)
    for local, (m, a) in mod.imports.items():
        if a is not None and m in ('numpy', 'numpy.ma'):
            base = np if m == 'numpy' else np.ma
            if not hasattr(base, a):
                for n in walk_expr(node):
                    if isinstance(n, ast.Name) and n.id == local and isinstance(n.ctx, ast.Load) and id(n) not in seen:
                        seen.add(id(n))
                        out.append((n, '%s.%s' % (m, a)))
    return out


def removed_method_calls(mod, node):
    """-> list of (call node, method) for calls of removed ndarray methods"""
    np = _np()
    out = []
    for n in walk_expr(node):
        if isinstance(n, ast.Call) and isinstance(n.func, ast.Attribute):
            m = n.func.attr
            if m in REMOVED_NDARRAY_METHODS and not hasattr(np.ndarray, m):
                recv = n.func.value
                if m == 'newbyteorder':
                    # valid on dtype receivers
                    if isinstance(recv, ast.Call) and dotted(recv.func) in DTYPE_CTORS:
                        continue
                    if isinstance(recv, ast.Attribute) and recv.attr == 'dtype':
                        continue
                    if isinstance(recv, ast.Name):
                        continue   # unknown receiver type: not judged
                out.append((n, m))
    return out


def stmt_of(node):
    p = node
    while p is not None and not isinstance(p, ast.stmt):
        p = getattr(p, '_parent', None)
    return p if p is not None else node
